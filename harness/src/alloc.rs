//! Counting global allocator: an atomic live-bytes counter (no address tracking, so it hides
//! nothing from leak detectors). Installed in the worker binary; used by the space monitors
//! (C14–C16), which run single-threaded.

use std::alloc::{GlobalAlloc, Layout, System};
use std::sync::atomic::{AtomicIsize, AtomicUsize, Ordering};

pub struct Counting;

static LIVE: AtomicIsize = AtomicIsize::new(0);
static PEAK: AtomicIsize = AtomicIsize::new(0);
static ALLOCS: AtomicUsize = AtomicUsize::new(0);

unsafe impl GlobalAlloc for Counting {
    unsafe fn alloc(&self, layout: Layout) -> *mut u8 {
        let p = System.alloc(layout);
        if !p.is_null() {
            let l = LIVE.fetch_add(layout.size() as isize, Ordering::Relaxed) + layout.size() as isize;
            PEAK.fetch_max(l, Ordering::Relaxed);
            ALLOCS.fetch_add(1, Ordering::Relaxed);
        }
        p
    }
    unsafe fn dealloc(&self, ptr: *mut u8, layout: Layout) {
        System.dealloc(ptr, layout);
        LIVE.fetch_sub(layout.size() as isize, Ordering::Relaxed);
    }
    unsafe fn alloc_zeroed(&self, layout: Layout) -> *mut u8 {
        let p = System.alloc_zeroed(layout);
        if !p.is_null() {
            let l = LIVE.fetch_add(layout.size() as isize, Ordering::Relaxed) + layout.size() as isize;
            PEAK.fetch_max(l, Ordering::Relaxed);
            ALLOCS.fetch_add(1, Ordering::Relaxed);
        }
        p
    }
    unsafe fn realloc(&self, ptr: *mut u8, layout: Layout, new_size: usize) -> *mut u8 {
        let p = System.realloc(ptr, layout, new_size);
        if !p.is_null() {
            let d = new_size as isize - layout.size() as isize;
            let l = LIVE.fetch_add(d, Ordering::Relaxed) + d;
            PEAK.fetch_max(l, Ordering::Relaxed);
        }
        p
    }
}

pub fn live() -> isize {
    LIVE.load(Ordering::Relaxed)
}
pub fn n_allocs() -> usize {
    ALLOCS.load(Ordering::Relaxed)
}
