//! The query battery for wavelet trees: every answer of the real structure is compared with the
//! `SeqModel`. Used by C01/C02/C03 (answers), C09 (prefetch), C10 (unchecked twins), C11 (on the
//! deserialised copy), C18 (purity) and C19 (construction paths) — with different options.

use crate::adapters::{DynTree, Sym, TreeKind};
use crate::chk;
use crate::model::SeqModel;
use crate::prng::Rng;
use crate::report::{Exp, Rep};

#[derive(Clone, Debug)]
pub struct BatOpts {
    /// rough number of oracle comparisons to spend on this structure
    pub budget: usize,
    /// also call the unchecked twin after every successful checked call (C10)
    pub unchecked: bool,
    /// also call rank_prefetch for every rank query
    pub prefetch: bool,
    /// check iter()/rev() against the model
    pub iter: bool,
    /// queries with invalid arguments (past the end, symbols outside the alphabet)
    pub invalid: bool,
}

impl BatOpts {
    pub fn new(budget: usize) -> Self {
        BatOpts { budget, unchecked: false, prefetch: true, iter: true, invalid: true }
    }
}

#[derive(Clone, Copy, Debug, Default, PartialEq, Eq)]
pub struct Digest(pub u64);
impl Digest {
    #[inline]
    pub fn add(&mut self, tag: u64, v: u128) {
        let mut x = self.0 ^ tag.wrapping_mul(0x9E37_79B9_7F4A_7C15);
        x = x.wrapping_add(v as u64).rotate_left(23).wrapping_mul(0xBF58_476D_1CE4_E5B9);
        x ^= (v >> 64) as u64;
        self.0 = x ^ (x >> 29);
    }
    #[inline]
    pub fn add_opt(&mut self, tag: u64, v: Option<u128>) {
        match v {
            None => self.add(tag, u128::MAX - 1),
            Some(x) => self.add(tag ^ 0x55, x),
        }
    }
}

/// valid positions to probe: all of 0..limit when cheap, otherwise structural boundaries +- 1 and
/// seeded random ones. `limit` is exclusive.
pub fn positions(limit: usize, cap: usize, rng: &mut Rng) -> Vec<usize> {
    if limit == 0 {
        return vec![];
    }
    if limit <= cap {
        return (0..limit).collect();
    }
    let mut v: Vec<usize> = vec![0, 1, 2, limit - 1, limit.saturating_sub(2), limit / 2];
    let periods = [128usize, 256, 512, 1024, 2048, 4096, 8192, 32768, 65536];
    let per_period = (cap / 3 / periods.len()).max(3);
    for p in periods {
        if p >= limit {
            continue;
        }
        let multiples = limit / p;
        for _ in 0..per_period / 3 {
            let k = 1 + rng.usize_below(multiples);
            let b = k * p;
            for d in [b.wrapping_sub(1), b, b + 1] {
                if d < limit {
                    v.push(d);
                }
            }
        }
        // the last boundary is always interesting
        let b = multiples * p;
        for d in [b.wrapping_sub(1), b, b + 1] {
            if d < limit {
                v.push(d);
            }
        }
    }
    while v.len() < cap {
        v.push(rng.usize_below(limit));
    }
    v.retain(|&x| x < limit);
    v.sort_unstable();
    v.dedup();
    v
}

pub const BAD_POSITIONS: [usize; 5] = [usize::MAX, usize::MAX - 1, 1 << 63, (1 << 43) + 1, u32::MAX as usize];

/// occurrence indices to probe for a symbol with `count` occurrences
pub fn occurrence_indices(count: usize, cap: usize, rng: &mut Rng) -> Vec<usize> {
    let mut v = vec![0usize, 1, count.wrapping_sub(1), count, count + 1, usize::MAX, usize::MAX - 1, 1 << 63];
    if count > 0 {
        let period = 8192;
        let mut k = period;
        let mut added = 0;
        while k <= count + 1 && added < cap {
            for d in [k - 1, k, k + 1] {
                v.push(d);
            }
            k += period;
            added += 3;
        }
        if count <= cap {
            v.extend(0..count);
        } else {
            for _ in 0..cap {
                v.push(rng.usize_below(count));
            }
        }
    }
    v.sort_unstable();
    v.dedup();
    v
}

/// symbols to query: (value, is_present)
pub fn query_symbols<T: Sym>(m: &SeqModel, cap: usize, invalid: bool, rng: &mut Rng) -> Vec<u128> {
    let mut v: Vec<u128> = Vec::new();
    let syms = &m.syms;
    if syms.len() <= cap {
        v.extend(syms.iter().copied());
    } else {
        v.push(syms[0]);
        v.push(*syms.last().unwrap());
        // most frequent and rarest
        let mf = syms.iter().max_by_key(|s| m.count(**s)).unwrap();
        let rr = syms.iter().min_by_key(|s| m.count(**s)).unwrap();
        v.push(*mf);
        v.push(*rr);
        while v.len() < cap {
            v.push(*rng.pick(syms));
        }
    }
    if invalid {
        let tmax = T::max_u128();
        let max = m.max().unwrap_or(0);
        // absent symbols below the maximum
        let mut absent = 0;
        for cand in [0u128, 1, 2, 3, max / 2, max.saturating_sub(1), max / 3 + 1] {
            if cand <= max && m.count(cand) == 0 {
                v.push(cand);
                absent += 1;
                if absent >= 3 {
                    break;
                }
            }
        }
        for _ in 0..3 {
            if max > 0 {
                let cand = if max == u128::MAX { rng.u128() } else { rng.u128() % (max + 1) };
                if m.count(cand) == 0 {
                    v.push(cand);
                }
            }
        }
        for cand in [max.saturating_add(1), max.saturating_add(2), max.saturating_mul(2).saturating_add(1), tmax, tmax - 1, tmax / 2 + 1] {
            if cand <= tmax {
                v.push(cand);
            }
        }
        // values that collide with a present symbol after truncation to 8/16/32/64 bits
        for &s in syms.iter().take(3) {
            for sh in [8u32, 16, 32, 64] {
                if sh < T::BITS {
                    let cand = s | (1u128 << sh);
                    if cand <= tmax {
                        v.push(cand);
                    }
                    let cand2 = (s & ((1u128 << sh) - 1)) | (1u128 << sh);
                    if cand2 <= tmax {
                        v.push(cand2);
                    }
                }
            }
        }
    }
    v.sort_unstable();
    v.dedup();
    v
}

/// the expectation for rank(c, i), by tree kind (DESIGN.md §5 C01–C03)
pub fn rank_expectation(kind: TreeKind, m: &SeqModel, c: u128, i: usize) -> Exp<Option<usize>> {
    let n = m.len();
    if i > n {
        return Exp::Is(None);
    }
    if n == 0 {
        return match kind {
            // C01: "for the empty sequence no query ever yields a position or a non-zero count"
            TreeKind::PlainQuad => Exp::Either(None, Some(0)),
            // C02/C03: "on the empty sequence the answer is None"
            _ => Exp::Is(None),
        };
    }
    let max = m.max().unwrap();
    match kind {
        TreeKind::PlainQuad | TreeKind::PlainBin => {
            if c <= max {
                Exp::Is(Some(m.rank(c, i)))
            } else {
                Exp::Is(None)
            }
        }
        TreeKind::HuffQuad | TreeKind::HuffBin => {
            if m.count(c) > 0 {
                Exp::Is(Some(m.rank(c, i)))
            } else {
                Exp::Is(None)
            }
        }
    }
}

thread_local! {
    /// the symbol of the last select issued by the previous battery on this thread: the next battery
    /// starts with a select of the same symbol (a memo keyed on something that outlives a tree — its
    /// address, a thread-local — would hand the new tree the old tree's state)
    static LAST_SELECT_SYMBOL: std::cell::Cell<Option<u128>> = const { std::cell::Cell::new(None) };
}

/// Runs the battery; returns a digest of all answers of the real structure.
pub fn tree_battery<T: Sym>(rep: &mut Rep, t: &dyn DynTree<T>, m: &SeqModel, rng: &mut Rng, o: &BatOpts) -> Digest {
    let mut dg = Digest::default();
    let n = m.len();
    let kind = t.kind();

    // ---- first of all: the same select the previous tree on this thread answered last
    if let Some(c) = LAST_SELECT_SYMBOL.with(|l| l.get()) {
        if c <= T::max_u128() {
            let cs = T::from_u128(c);
            for k in [0usize, 1, 2] {
                chk!(rep, "select[first query, symbol of the previous tree's last query]", (c, k), Exp::Is(m.select(c, k)), t.select_(cs, k));
            }
        }
    }
    // ---- scalars
    chk!(rep, "len", (), Exp::Is(n), t.len_());
    chk!(rep, "is_empty", (), Exp::Is(n == 0), t.is_empty_());
    if kind == TreeKind::PlainQuad {
        let exp: Option<T> = m.max().map(T::from_u128);
        chk!(rep, "sigma", (), Exp::Is(Some(exp)), t.sigma_());
    }
    if let Some(l) = crate::outcome::guard(|| t.n_levels_()).val() {
        // recorded, not part of the digest of answers (equally good Huffman codes may differ in depth)
        rep.gate_max("max_levels", l as u64);
    }

    // ---- get
    let pos = positions(n, (o.budget / 4).max(8), rng);
    for &i in &pos {
        let exp = Some(T::from_u128(m.seq[i]));
        let got = chk!(rep, "get", i, Exp::Is(exp), t.get_(i));
        if let Some(Some(v)) = got.as_val() {
            dg.add(2, v.to_u128());
            if n >= 2 {
                rep.nontrivial();
            }
            if o.unchecked {
                let v = *v;
                chk!(rep, "get_unchecked", i, Exp::Is(v), unsafe { t.get_unchecked_(i) });
            }
        }
    }
    // get at the occurrences of the rarest symbols (sampled positions almost never hit them in a long input)
    {
        let mut rare: Vec<u128> = m.syms.clone();
        rare.sort_by_key(|s| (m.count(*s), *s));
        for &c in rare.iter().take(8) {
            let occ = &m.occ[&c];
            for &i in [occ[0], occ[occ.len() - 1], occ[occ.len() / 2]].iter() {
                chk!(rep, "get", (i, "occurrence of a rare symbol"), Exp::Is(Some(T::from_u128(c))), t.get_(i));
            }
        }
    }
    if o.invalid {
        for i in [n, n + 1, n + 255, n + 256, n + 2048].into_iter().chain(BAD_POSITIONS) {
            if i >= n {
                let got = chk!(rep, "get", i, Exp::Is(None), t.get_(i));
                dg.add_opt(3, got.val().flatten().map(|x| x.to_u128()));
            }
        }
    }

    // ---- rank (+ rank_prefetch)
    let nsym_cap = ((o.budget as f64 / 2.0).sqrt() as usize).clamp(4, 64);
    let syms = query_symbols::<T>(m, nsym_cap, o.invalid, rng);
    let per_sym = (o.budget / 2 / syms.len().max(1)).max(6);
    let has_prefetch = kind.is_quad();
    for &c in &syms {
        let cs = T::from_u128(c);
        debug_assert_eq!(cs.to_u128(), c);
        let mut ps = positions(n + 1, per_sym, rng);
        if o.invalid {
            ps.extend([n + 1, n + 2, n + 257, n + 4097]);
            ps.extend(BAD_POSITIONS);
        }
        for &i in &ps {
            let exp = rank_expectation(kind, m, c, i);
            let got = chk!(rep, "rank", (c, i), exp, t.rank_(cs, i));
            let gv = got.val();
            dg.add_opt(4, gv.flatten().map(|x| x as u128));
            if let Some(Some(r)) = gv {
                if n >= 2 && r > 0 {
                    rep.nontrivial();
                }
                if o.unchecked && n > 0 {
                    chk!(rep, "rank_unchecked", (c, i), Exp::Is(r), unsafe { t.rank_unchecked_(cs, i) });
                }
            }
            if o.prefetch && has_prefetch {
                let exp = match rank_expectation(kind, m, c, i) {
                    Exp::Is(x) => Exp::Is(Some(x)),
                    Exp::Either(a, b) => Exp::Either(Some(a), Some(b)),
                    _ => unreachable!(),
                };
                let got = chk!(rep, "rank_prefetch", (c, i), exp, t.rank_prefetch_(cs, i));
                let gv = got.val().flatten();
                dg.add_opt(5, gv.flatten().map(|x| x as u128));
                if let Some(Some(r)) = gv {
                    if o.unchecked && n > 0 {
                        chk!(rep, "rank_prefetch_unchecked", (c, i), Exp::Is(Some(r)), unsafe {
                            t.rank_prefetch_unchecked_(cs, i)
                        });
                    }
                }
            }
        }
    }

    // ---- select
    let per_sym_sel = (o.budget / 4 / syms.len().max(1)).max(4);
    for &c in &syms {
        let cs = T::from_u128(c);
        let count = m.count(c);
        let mut ks = occurrence_indices(count, per_sym_sel, rng);
        if !o.invalid {
            ks.retain(|&k| k < count);
        }
        for &k in &ks {
            let exp = m.select(c, k);
            let got = chk!(rep, "select", (c, k), Exp::Is(exp), t.select_(cs, k));
            let gv = got.val();
            dg.add_opt(6, gv.flatten().map(|x| x as u128));
            if let Some(Some(p)) = gv {
                if n >= 2 {
                    rep.nontrivial();
                }
                if o.unchecked {
                    chk!(rep, "select_unchecked", (c, k), Exp::Is(p), unsafe { t.select_unchecked_(cs, k) });
                }
            }
        }
        if count > 8192 {
            rep.gate_max("max_select_samples_one_symbol", (count / 8192) as u64);
        }
    }

    // ---- interleaved history: operations, symbols and indices mixed, with runs of consecutive indices
    // (what a cursor / memo inside the structure would key on), all against the model
    if n > 0 && !m.syms.is_empty() {
        let steps = (o.budget / 20).clamp(24, 600);
        let mut prev: Option<(u8, u128, usize)> = None;
        for _ in 0..steps {
            let (kind, c, idx) = match prev {
                // continue a run: same or other operation kind, next index, same or alternating symbol
                Some((k, c, i)) if rng.chance(2, 3) => {
                    let k2 = if rng.chance(1, 3) { (k + 1) % 3 } else { k };
                    let c2 = if rng.chance(1, 4) { *rng.pick(&syms) } else { c };
                    (k2, c2, i + 1)
                }
                _ => (rng.below(3) as u8, *rng.pick(&syms), rng.usize_below(n)),
            };
            let cs = T::from_u128(c);
            match kind {
                0 => {
                    let i = idx.min(n + 1);
                    chk!(rep, "rank[interleaved]", (c, i), rank_expectation(t.kind(), m, c, i), t.rank_(cs, i));
                }
                1 => {
                    chk!(rep, "select[interleaved]", (c, idx), Exp::Is(m.select(c, idx)), t.select_(cs, idx));
                }
                _ => {
                    let i = idx % (n + 1);
                    let exp = if i < n { Some(T::from_u128(m.seq[i])) } else { None };
                    chk!(rep, "get[interleaved]", i, Exp::Is(exp), t.get_(i));
                }
            }
            prev = Some((kind, c, idx));
        }
    }

    // ---- iterators (whole-sequence comparison)
    if o.iter && n <= o.budget.max(64) {
        let want: Vec<T> = m.seq.iter().map(|&x| T::from_u128(x)).collect();
        chk!(rep, "iter", "collect", Exp::Is(true), t.iter_box().collect::<Vec<_>>() == want);
        chk!(rep, "iter_rev", "collect", Exp::Is(true), {
            let mut r = t.iter_box().rev().collect::<Vec<_>>();
            r.reverse();
            r == want
        });
        rep.tick_n("iter_items", 2 * n as u64);
    }
    // ---- last of all: a select of a present symbol, remembered for the next battery on this thread
    if !m.syms.is_empty() {
        let c = m.syms[(n / 3) % m.syms.len()];
        let cs = T::from_u128(c);
        for k in [0usize, 1, 2] {
            chk!(rep, "select[last query]", (c, k), Exp::Is(m.select(c, k)), t.select_(cs, k));
        }
        LAST_SELECT_SYMBOL.with(|l| l.set(Some(c)));
    }
    rep.gate_max("max_n", n as u64);
    dg
}
