//! C14 (space overhead of plain trees and rank/select vectors), C15 (Huffman-shaped trees are
//! entropy-bounded), C16 (reported space usage matches retained memory).
//!
//! Monitor: the worker's counting global allocator. `retained(v)` = live heap bytes after the
//! value was built and every temporary (incl. the input) was dropped, minus live bytes before,
//! plus `size_of_val(v)`. Allocation sizes are deterministic, so the margins below cannot flake.

use crate::adapters::*;
use crate::alloc::live;
use crate::gen::*;
use crate::json::J;
use crate::model::SeqModel;
use crate::prng::Rng;
use crate::report::{Cfg, Rep, Scale, Tier};
use crate::{with_tree, Case};
use qwt::{BitVector, BitVectorMut, DArray, QVector, SpaceUsage};

/// builds a value inside a measurement window; returns (value, retained bytes incl. its own size)
pub fn measure<T>(huff_hook: bool, f: impl FnOnce() -> T) -> (T, usize) {
    measure_freed(huff_hook, 0, f)
}

/// like `measure`, for closures that also free `freed_inside` bytes that were allocated before the
/// window (the consumed input)
pub fn measure_freed<T>(huff_hook: bool, freed_inside: usize, f: impl FnOnce() -> T) -> (T, usize) {
    // the cfg(qwt_verif) hook keeps the last code-length table in a thread-local: not part of the value
    let prev_hook = if huff_hook { qwt::verif::last_lengths().len() * 16 } else { 0 };
    let before = live();
    let v = f();
    let after = live();
    let new_hook = if huff_hook { qwt::verif::last_lengths().len() * 16 } else { 0 };
    let heap = (after - before) as i64 - new_hook as i64 + prev_hook as i64 + freed_inside as i64;
    (v, heap.max(0) as usize + std::mem::size_of::<T>())
}

fn bitlen(m: u128) -> u32 {
    // the code's own convention: a sequence whose largest symbol is 0 still uses one bit
    if m == 0 {
        1
    } else {
        128 - m.leading_zeros()
    }
}

fn bound_viol(rep: &mut Rep, op: &'static str, args: String, bound_bits: f64, got_bits: f64, detail: String) {
    rep.tick(op);
    if got_bits > bound_bits {
        rep.viol(op, args, format!("<= {:.0} bits ({})", bound_bits, detail), format!("{:.0} bits", got_bits), "space_bound_exceeded".into());
    } else if rep.want_event() {
        rep.event(op, args, format!("{:.0} bits <= {:.0} bits", got_bits, bound_bits));
    }
}

const C_PER_LEVEL_BITS: f64 = 4096.0 * 8.0;

// ---------------------------------------------------------------------------------------------
// C14
// ---------------------------------------------------------------------------------------------

fn run_c14_tree<Tr: TreeApi>(rep: &mut Rep, spec: &SeqSpec) {
    let raw = gen_seq(spec, <Tr::Item as Sym>::BITS);
    let data: Vec<Tr::Item> = raw.iter().map(|&x| <Tr::Item as Sym>::from_u128(x)).collect();
    let n = data.len();
    let max = raw.iter().copied().max().unwrap_or(0);
    drop(raw);
    let bl = bitlen(max) as f64;
    let kind = Tr::KIND;
    for path in 0..4u8 {
        // the input is created before the window and consumed / dropped inside it
        let input = data.clone();
        let (t, retained) = measure_freed(false, n * std::mem::size_of::<Tr::Item>(), move || match path {
            0 => {
                let mut v = input;
                let t = Tr::b_new(&mut v);
                drop(v);
                t
            }
            1 => Tr::b_from(input),
            2 => Tr::b_collect(input),
            _ => {
                // a value read back from its serialized form (how an index built once is used later)
                let t = Tr::b_from(input);
                let bytes = t.ser().expect("serialize");
                drop(t);
                Tr::de_reader(&mut &bytes[..]).expect("deserialize")
            }
        });
        let (bound, detail) = if kind == TreeKind::PlainQuad {
            let levels = (bl / 2.0).ceil();
            let r = if Tr::BLOCK == 256 { 1.0 / 8.0 } else { 1.0 / 16.0 };
            let eps = if Tr::PFS { 0.02 } else { 0.01 };
            ((1.0 + r + eps) * 2.0 * n as f64 * levels + levels * C_PER_LEVEL_BITS, format!("(1+{:.4}+{})*2*n*{} + {}*4KiB", r, eps, levels, levels))
        } else {
            (1.05 * n as f64 * bl + bl * C_PER_LEVEL_BITS, format!("1.05*n*{} + {}*4KiB", bl, bl))
        };
        let got = retained as f64 * 8.0;
        bound_viol(
            rep,
            "retained_bits",
            format!("{} path={} n={} max={}", Tr::name(), if path == 3 { "deserialized" } else { crate::props::trees::path_name(path) }, n, max),
            bound,
            got,
            detail,
        );
        if n > 0 {
            let per = got / (n as f64 * if kind == TreeKind::PlainQuad { (bl / 2.0).ceil() } else { bl });
            rep.gate_set("bits_per_symbol_per_level", format!("{}:{:.3}", Tr::ALIAS, per));
        }
        // n_levels is observed for the evidence (an extra level shows up in the bound above)
        rep.gate_max("max_levels", t.n_levels_() as u64);
        drop(t);
    }
    rep.gate_max("max_n", n as u64);
    if n >= 2 {
        rep.nontrivial();
    }
}

fn run_c14_vectors(rep: &mut Rep, n: usize, seed: u64) {
    let mut rng = Rng::new(seed);
    let quads: Vec<u8> = (0..n).map(|_| rng.below(4) as u8).collect();
    for (name, r) in [("RSQVector256", 1.0 / 8.0), ("RSQVector512", 1.0 / 16.0)] {
        for path in 0..3u8 {
            let input = quads.clone();
            let (q_space, retained) = if name == "RSQVector256" {
                let (q, ret) = measure_freed(false, n, move || build_rsq::<qwt::RSQVector256>(input, path));
                (q.space(), ret)
            } else {
                let (q, ret) = measure_freed(false, n, move || build_rsq::<qwt::RSQVector512>(input, path));
                (q.space(), ret)
            };
            let bound = (1.0 + r + 0.01) * 2.0 * n as f64 + C_PER_LEVEL_BITS;
            bound_viol(rep, "retained_bits", format!("{} path={} n={}", name, path, n), bound, retained as f64 * 8.0, format!("(1+{:.4}+0.01)*2n + 4KiB", r));
            let _ = q_space;
        }
    }
    let bits: Vec<bool> = (0..n).map(|_| rng.bool()).collect();
    for path in 0..2u8 {
        let input = bits.clone();
        let (_w, retained) = measure_freed(false, n, move || {
            let bv: BitVector = input.iter().copied().collect();
            drop(input);
            if path == 0 {
                qwt::RSWide::new(bv)
            } else {
                qwt::RSWide::from(bv)
            }
        });
        let bound = 1.05 * n as f64 + C_PER_LEVEL_BITS;
        bound_viol(rep, "retained_bits", format!("RSWide path={} n={}", path, n), bound, retained as f64 * 8.0, "1.05*n + 4KiB".into());
    }
    if n >= 2 {
        rep.nontrivial();
    }
}

fn build_rsq<Q: QuadApi>(input: Vec<u8>, path: u8) -> Q {
    match path {
        0 => {
            let q = Q::b_new_u8(&input);
            drop(input);
            q
        }
        1 => {
            let qv: QVector = input.iter().copied().collect();
            drop(input);
            Q::b_from_qv(qv)
        }
        _ => Q::b_collect(input),
    }
}

fn space_lens(cfg: &Cfg) -> Vec<usize> {
    match (cfg.scale, cfg.tier) {
        (Scale::Tiny, _) => vec![300],
        (Scale::Mid, Tier::Quick) => vec![3001, 100_003],
        (Scale::Mid, Tier::Thorough) => vec![0, 1, 3001, 100_003, 600_011],
        (Scale::Full, Tier::Quick) => vec![0, 1, 3001, 100_003, 1_000_003, 9_000_011],
        (Scale::Full, Tier::Thorough) => vec![0, 1, 257, 3001, 100_003, 1_000_003, 4_000_037, 9_000_011, 17_500_007],
    }
}

pub fn cases_c14(cfg: &Cfg) -> Vec<Case> {
    let mut rng = Rng::derive(cfg.seed, "c14", 0);
    let mut out = Vec::new();
    let maxes: Vec<(u128, &'static str)> = vec![
        (1, "u8"),
        (3, "u8"),
        (4, "u8"),
        (15, "u16"),
        (16, "u8"),
        (255, "u8"),
        (256, "u16"),
        (65535, "u16"),
        (1 << 20, "u32"),
        (1 << 40, "u64"),
        ((1 << 40) + 5, "usize"),
        ((1u128 << 70) + 1, "u128"),
        (0, "u32"),
    ];
    let aliases = ["QWT256", "QWT512", "QWT256Pfs", "QWT512Pfs", "WT"];
    let mut k = 0usize;
    for &n in &space_lens(cfg) {
        for (mi, (max, tname)) in maxes.iter().enumerate() {
            for (ai, alias) in aliases.iter().enumerate() {
                // big inputs: a rotating subset of (alphabet, alias) pairs
                if n > 200_000 && (mi + ai + k) % 4 != 0 {
                    continue;
                }
                // the longest inputs (levels beyond 2 MiB / 4 MiB of quad data): trees of at most 8 levels
                if n > 6_000_000 && bitlen(*max) > 16 {
                    continue;
                }
                if cfg.scale == Scale::Tiny && (mi + ai) % 7 != 0 {
                    continue;
                }
                let alias: &'static str = alias;
                let tname: &'static str = tname;
                let kk = if *max < 64 { (*max as usize + 1).min(64) } else { 64 };
                let spec = SeqSpec {
                    n,
                    alpha: if *max == 0 { Alpha::Single(0) } else { Alpha::Holes { k: kk, max: *max } },
                    dist: if (mi + ai) % 2 == 0 { Dist::Uniform } else { Dist::Zipf },
                    layout: Layout::Iid,
                    seed: rng.u64(),
                };
                let ty = format!("{}<{}>", alias, tname);
                let class = format!("{}|n{}|max{}", ty, len_bucket(n), bitlen(*max));
                let desc = J::obj().set("spec", spec.to_json());
                let w = (n as u64 + 1000) * bitlen(*max) as u64;
                out.push(Case::new(ty, class, desc, w, move |rep: &mut Rep| {
                    with_tree!(alias, tname, run_c14_tree, rep, &spec);
                }));
            }
        }
        k += 1;
        let seed = rng.u64();
        out.push(Case::new("RSQVector256/512, RSWide", format!("vectors|n{}", len_bucket(n)), J::obj().set("n", n).set("seed", seed), n as u64 * 4 + 1000, move |rep: &mut Rep| {
            run_c14_vectors(rep, n, seed)
        }));
    }
    out
}

// ---------------------------------------------------------------------------------------------
// C15
// ---------------------------------------------------------------------------------------------

fn run_c15<Tr: TreeApi>(rep: &mut Rep, spec: &SeqSpec) {
    let raw = gen_seq(spec, <Tr::Item as Sym>::BITS);
    // construction history on one thread: the input, then the same symbols with the frequency
    // profile mirrored (most frequent <-> rarest), then the input again. Each construction must
    // meet the bounds whatever was built before it.
    let m0 = SeqModel::new(raw.clone());
    let mut by_count: Vec<u128> = m0.syms.clone();
    by_count.sort_by_key(|s| (m0.count(*s), *s));
    let mirror: std::collections::HashMap<u128, u128> = by_count.iter().copied().zip(by_count.iter().rev().copied()).collect();
    let mirrored: Vec<u128> = raw.iter().map(|x| mirror[x]).collect();
    drop(m0);
    c15_one::<Tr>(rep, spec, raw.clone(), "input");
    if raw.len() <= 300_000 {
        c15_one::<Tr>(rep, spec, mirrored, "frequencies mirrored (built right after the input)");
        c15_one::<Tr>(rep, spec, raw, "input again");
        rep.gate_add("construction_histories", 1);
    }
}

fn c15_one<Tr: TreeApi>(rep: &mut Rep, spec: &SeqSpec, raw: Vec<u128>, step: &'static str) {
    let data: Vec<Tr::Item> = raw.iter().map(|&x| <Tr::Item as Sym>::from_u128(x)).collect();
    let m = SeqModel::new(raw);
    let n = m.len();
    if n == 0 {
        return;
    }
    let h0 = m.h0();
    let max = m.max().unwrap();
    let quad = Tr::KIND.is_quad();
    let bits_per = if quad { 2.0 } else { 1.0 };
    let slack = if quad { 2.0 } else { 1.0 };
    let input = data.clone();
    let (t, retained) = measure_freed(true, n * std::mem::size_of::<Tr::Item>(), move || Tr::b_from(input));
    crate::props::trees::observe_codes::<Tr>(rep);
    // exact monitor: level data
    let lens = t.level_lens();
    let level_bits: f64 = lens.iter().map(|&l| l as f64 * bits_per).sum();
    let bound = n as f64 * (h0 + slack) + 1e-9 * n as f64 + 1e-6;
    bound_viol(
        rep,
        "level_data_bits<=n(H0+k)",
        format!("{} n={} sigma={} H0={:.4} [{}]", Tr::name(), n, m.syms.len(), h0, step),
        bound,
        level_bits,
        format!("n*(H0+{})", slack),
    );
    // never more level data than the corresponding plain tree
    let plain_levels = if quad { ((bitlen(max) as f64) / 2.0).ceil() * 2.0 } else { bitlen(max) as f64 };
    bound_viol(
        rep,
        "level_data_bits<=plain",
        format!("{} n={} max={} [{}]", Tr::name(), n, max, step),
        n as f64 * plain_levels,
        level_bits,
        format!("n*{}", plain_levels),
    );
    // heap monitor (no hook): same relative overhead as C14 + a table proportional to the largest symbol
    let r = if !quad {
        0.05
    } else if Tr::BLOCK == 256 {
        1.0 / 8.0
    } else {
        1.0 / 16.0
    };
    let eps = if Tr::PFS { 0.02 } else { 0.01 };
    // "a table proportional to the largest symbol value": one 8-byte code per symbol value plus one
    // (code, symbol) decoding entry per symbol, whose size depends on the element type
    // (the decoding table is grown by push, so up to twice its used size may be allocated)
    let per_value_bytes = 8 + 2 * std::mem::size_of::<(u32, Tr::Item)>();
    let table = 8.0 * per_value_bytes as f64 * (max as f64 + 1.0);
    let nl = lens.len().max(1) as f64;
    let bound = (1.0 + r + eps) * n as f64 * (h0 + slack) + table + nl * C_PER_LEVEL_BITS;
    bound_viol(
        rep,
        "retained_bits",
        format!("{} n={} sigma={} max={} H0={:.4} [{}]", Tr::name(), n, m.syms.len(), max, h0, step),
        bound,
        retained as f64 * 8.0,
        format!("(1+{:.4}+{})*n*(H0+{}) + {}B*(max+1) + {}*4KiB", r, eps, slack, per_value_bytes, nl),
    );
    rep.gate_set("profiles", format!("{:?}", spec.dist).chars().take(12).collect());
    if m.syms.len() == 1 {
        rep.gate_add("single_symbol_inputs", 1);
    }
    rep.gate_max("max_n", n as u64);
    if n >= 2 {
        rep.nontrivial();
    }
}

pub fn cases_c15(cfg: &Cfg) -> Vec<Case> {
    let mut rng = Rng::derive(cfg.seed, "c15", 0);
    let mut out = Vec::new();
    let lens: Vec<usize> = match (cfg.scale, cfg.tier) {
        (Scale::Tiny, _) => vec![400],
        (Scale::Mid, Tier::Quick) => vec![5000, 100_003],
        (Scale::Mid, Tier::Thorough) => vec![5000, 100_003, 400_009],
        (Scale::Full, Tier::Quick) => vec![1, 2, 5000, 100_003, 1_000_003, 2_400_011],
        (Scale::Full, Tier::Thorough) => vec![1, 2, 3, 257, 5000, 100_003, 1_000_003, 3_000_017, 5_300_003],
    };
    let aliases = ["HQWT256", "HQWT512", "HQWT256Pfs", "HQWT512Pfs", "HWT"];
    let profiles: Vec<(Alpha, Dist, &'static str)> = vec![
        (Alpha::Dense(4), Dist::Uniform, "u8"),
        (Alpha::Dense(16), Dist::Equal, "u8"),
        (Alpha::Dense(64), Dist::Uniform, "u16"),
        (Alpha::Dense(256), Dist::Uniform, "u8"),
        (Alpha::Dense(256), Dist::Zipf, "u32"),
        (Alpha::Dense(40), Dist::Geometric(2.0), "u8"),
        (Alpha::Dense(30), Dist::Geometric(4.0), "u64"),
        (Alpha::Dense(7), Dist::Dominant, "u8"),
        (Alpha::Dense(200), Dist::Dominant, "u16"),
        (Alpha::Single(0), Dist::Equal, "u8"),
        (Alpha::Single(77), Dist::Equal, "u32"),
        (Alpha::Dense(2), Dist::Uniform, "u8"),
        (Alpha::Dense(2), Dist::Dominant, "usize"),
        (Alpha::Dense(3), Dist::Random, "u8"),
        (Alpha::Dense(5), Dist::Equal, "u8"),
        (Alpha::Holes { k: 100, max: 60_000 }, Dist::Zipf, "u16"),
        (Alpha::Holes { k: 20, max: 1 << 20 }, Dist::Random, "u32"),
        (Alpha::Dense(1000), Dist::Zipf, "u128"),
    ];
    // large alphabets made mostly of symbols that occur once or twice (Exact weights; n is fixed by
    // the profile): every symbol once; many singletons + some doubles; singletons + a few heavy symbols
    let mut singles: Vec<(Vec<u64>, &'static str)> = Vec::new();
    if cfg.scale != Scale::Tiny {
        let k = if cfg.scale == Scale::Full { 60_000 } else { 12_000 };
        singles.push((vec![1u64; k], "u32"));
        let mut w = vec![1u64; k];
        w.extend(std::iter::repeat(2u64).take(k / 15));
        singles.push((w, "u32"));
        let mut w = vec![1u64; k / 2];
        w.extend([k as u64, k as u64 / 2, k as u64 / 4, 5000, 300]);
        singles.push((w, "u64"));
        singles.push((vec![1u64; 300], "u16"));
        let mut w = vec![1u64; 200];
        w.extend(std::iter::repeat(2u64).take(56));
        singles.push((w, "u8"));
    }
    for &n in &lens {
        for (pi, (alpha, dist, tname)) in profiles.iter().enumerate() {
            for (ai, alias) in aliases.iter().enumerate() {
                if n > 200_000 && (pi + ai) % 5 != 0 {
                    continue;
                }
                if cfg.scale != Scale::Full && (pi + ai) % 3 != 0 {
                    continue;
                }
                let alias: &'static str = alias;
                let tname: &'static str = tname;
                // the arrangement must not matter for the size: iid, sorted, long runs, blocks, rare first/last
                let layout = match (pi + 2 * ai) % 6 {
                    0 => Layout::Iid,
                    1 => Layout::Sorted,
                    2 => Layout::Blocks(3000),
                    3 => Layout::RareFirst,
                    4 => Layout::FreqAfterRare,
                    _ => Layout::RareLast,
                };
                let spec = SeqSpec { n, alpha: alpha.clone(), dist: dist.clone(), layout, seed: rng.u64() };
                let ty = format!("{}<{}>", alias, tname);
                let class = format!("{}|{}", ty, spec.class());
                let desc = J::obj().set("spec", spec.to_json());
                out.push(Case::new(ty, class, desc, n as u64 * 6 + 500, move |rep: &mut Rep| {
                    with_tree!(alias, tname, run_c15, rep, &spec);
                }));
            }
        }
    }
    // strided arrangements of long inputs: every stride 2..=64 and a few larger ones (whatever subsamples the input
    // with a fixed stride, or works on fixed-size chunks, sees a distribution that is far from the real one)
    if cfg.scale == Scale::Full && cfg.rep < 3 {
        let strides: Vec<usize> = (2..=64).chain([96, 100, 127, 128, 255, 256, 1000, 1024, 4096, 65536]).collect();
        for (j, p) in strides.into_iter().enumerate() {
            // every stride on a quad Huffman tree (the four aliases in turn) and on the binary one
            for alias in [aliases[j % 4], "HWT"] {
                let (alpha, dist, tname) = profiles[(j * 5 + 2 + (alias == "HWT") as usize) % profiles.len()].clone();
                let n = if cfg.tier == Tier::Quick { 1_200_011 + j * 3 } else { 2_500_003 + j * 7 };
                let spec = SeqSpec { n, alpha, dist, layout: Layout::Strided(p), seed: rng.u64() };
                let ty = format!("{}<{}>", alias, tname);
                let class = format!("{}|{}|stride{}", ty, spec.class(), p);
                let desc = J::obj().set("spec", spec.to_json());
                out.push(Case::new(ty, class, desc, n as u64 * 6 + 500, move |rep: &mut Rep| {
                    with_tree!(alias, tname, run_c15, rep, &spec);
                }));
            }
        }
    }
    for (si, (w, tname)) in singles.into_iter().enumerate() {
        for (ai, alias) in aliases.iter().enumerate() {
            if cfg.scale != Scale::Full && (si + ai) % 2 != 0 {
                continue;
            }
            let alias: &'static str = alias;
            let n = w.iter().sum::<u64>() as usize;
            let spec = SeqSpec { n, alpha: Alpha::Dense(w.len()), dist: Dist::Exact(w.clone()), layout: Layout::Iid, seed: rng.u64() };
            let ty = format!("{}<{}>", alias, tname);
            let class = format!("{}|singletons{}", ty, si);
            let desc = J::obj().set("spec", spec.to_json()).set("profile", "mostly symbols occurring once or twice");
            out.push(Case::new(ty, class, desc, n as u64 * 10 + 500, move |rep: &mut Rep| {
                with_tree!(alias, tname, run_c15, rep, &spec);
            }));
        }
    }
    // deep tie-free profiles (exact weights)
    if cfg.scale != Scale::Tiny {
        for (alias, arity, levels) in [("HQWT256", 4usize, 9usize), ("HQWT512Pfs", 4, 12), ("HWT", 2, 16), ("HWT", 2, 24)] {
            let w = deep_code_weights(arity, levels);
            let spec = SeqSpec { n: w.iter().sum::<u64>() as usize, alpha: Alpha::Dense(w.len()), dist: Dist::Exact(w), layout: Layout::Iid, seed: rng.u64() };
            let ty = format!("{}<u8>", alias);
            let class = format!("{}|deep{}", ty, levels);
            let desc = J::obj().set("spec", spec.to_json());
            let alias: &'static str = alias;
            out.push(Case::new(ty, class, desc, spec.n as u64 * 6, move |rep: &mut Rep| {
                with_tree!(alias, "u8", run_c15, rep, &spec);
            }));
        }
    }
    out
}

// ---------------------------------------------------------------------------------------------
// C16
// ---------------------------------------------------------------------------------------------

fn report_vs_retained(rep: &mut Rep, what: String, reported: usize, retained: usize, components: usize, table_slack: usize, scaled: (f64, f64, f64)) {
    rep.tick("space_usage_byte~retained");
    let tol = 0.03 * retained as f64 + 256.0 * components as f64 + table_slack as f64;
    let diff = (reported as f64 - retained as f64).abs();
    if diff > tol {
        rep.viol(
            "space_usage_byte~retained",
            what.clone(),
            format!("|reported - retained| <= {:.0} (3% + 256*{} + {})", tol, components, table_slack),
            format!("reported={} retained={} diff={:.0}", reported, retained, diff),
            "space_report_mismatch".into(),
        );
    } else if rep.want_event() {
        rep.event("space_usage_byte~retained", what.clone(), format!("reported={} retained={}", reported, retained));
    }
    if retained > 4096 {
        rep.gate_set("reported/retained", format!("{:.3}", reported as f64 / retained as f64));
    }
    // the scaled variants are the same number scaled
    let b = reported as f64;
    let ok = |x: f64, d: f64| ((x - b / d).abs() <= 1e-9 * (b / d).abs().max(1e-300));
    rep.tick("space_usage_scaled");
    if !(ok(scaled.0, 1024.0) && ok(scaled.1, 1024.0 * 1024.0) && ok(scaled.2, 1024.0 * 1024.0 * 1024.0)) {
        rep.viol("space_usage_scaled", what, format!("bytes/1024^k of {}", reported), format!("{:?}", scaled), "wrong_value".into());
    }
}

fn scaled_of<T: SpaceUsage>(v: &T) -> (f64, f64, f64) {
    (v.space_usage_KiB(), v.space_usage_MiB(), v.space_usage_GiB())
}

fn run_c16_tree<Tr: TreeApi>(rep: &mut Rep, spec: &SeqSpec) {
    let raw = gen_seq(spec, <Tr::Item as Sym>::BITS);
    let data: Vec<Tr::Item> = raw.iter().map(|&x| <Tr::Item as Sym>::from_u128(x)).collect();
    let n = data.len();
    let max = raw.iter().copied().max().unwrap_or(0);
    drop(raw);
    for path in 0..4u8 {
        let input = data.clone();
        let (t, retained) = measure_freed(Tr::KIND.is_huff(), n * std::mem::size_of::<Tr::Item>(), move || match path {
            0 => {
                let mut v = input;
                let t = Tr::b_new(&mut v);
                drop(v);
                t
            }
            1 => Tr::b_from(input),
            2 => Tr::b_collect(input),
            _ => {
                // a value read back from its serialized form
                let t = Tr::b_from(input);
                let bytes = t.ser().expect("serialize");
                drop(t);
                Tr::de_reader(&mut &bytes[..]).expect("deserialize")
            }
        });
        let levels = t.n_levels_().max(1);
        let table = if Tr::KIND.is_huff() { 16 * (max as usize + 1) + 4096 } else { 0 };
        report_vs_retained(
            rep,
            format!("{} path={} n={} max={}", Tr::name(), if path == 3 { "deserialized" } else { crate::props::trees::path_name(path) }, n, max),
            t.space(),
            retained,
            levels * 8,
            table,
            t.space_scaled(),
        );
    }
    rep.gate_max("max_n", n as u64);
    if n >= 2 {
        rep.nontrivial();
    }
}

fn run_c16_vectors(rep: &mut Rep, n: usize, seed: u64) {
    let mut rng = Rng::new(seed);
    let bits: Vec<bool> = (0..n).map(|_| rng.below(10) < 3).collect();
    let quads: Vec<u8> = (0..n).map(|_| rng.below(4) as u8).collect();
    let positions: Vec<usize> = (0..n).filter(|&i| bits[i]).collect();
    macro_rules! m {
        ($name:expr, $comp:expr, $build:expr) => {{
            let (v, retained) = measure(false, $build);
            report_vs_retained(rep, format!("{} n={}", $name, n), v.space_usage_byte(), retained, $comp, 0, scaled_of(&v));
        }};
    }
    m!("BitVector", 1, || bits.iter().copied().collect::<BitVector>());
    m!("BitVectorMut (collect)", 1, || bits.iter().copied().collect::<BitVectorMut>());
    m!("BitVectorMut (with_capacity + push: spare capacity)", 1, || {
        let mut b = BitVectorMut::with_capacity(2 * n + 1000);
        for &x in &bits {
            b.push(x);
        }
        b
    });
    m!("BitVectorMut (push, amortised growth)", 1, || {
        let mut b = BitVectorMut::new();
        for &x in &bits {
            b.push(x);
        }
        b
    });
    m!("BitVectorMut (positions)", 1, || positions.iter().copied().collect::<BitVectorMut>());
    m!("QVector", 1, || quads.iter().copied().collect::<QVector>());
    m!("RSQVector256", 8, || qwt::RSQVector256::new(&quads));
    m!("RSQVector512", 8, || qwt::RSQVector512::new(&quads));
    m!("RSNarrow", 4, || qwt::RSNarrow::new(bits.iter().copied().collect()));
    m!("RSWide", 4, || qwt::RSWide::new(bits.iter().copied().collect()));
    m!("DArray<false>", 6, || DArray::<false>::new(bits.iter().copied().collect()));
    m!("DArray<true>", 10, || DArray::<true>::new(bits.iter().copied().collect()));
    // sparse bit vector: DArray with overflow positions
    let sparse: Vec<usize> = (0..(n / 100)).map(|i| i * 100 + rng.usize_below(50)).collect();
    m!("DArray<true> (sparse)", 10, || sparse.iter().copied().collect::<DArray<true>>());
    // generic impls
    m!("Vec<u64> (spare capacity)", 1, || {
        let mut v: Vec<u64> = Vec::with_capacity(n + 100);
        v.extend((0..n as u64).take(n / 2));
        v
    });
    m!("Vec<u16> (empty, capacity)", 1, || Vec::<u16>::with_capacity(n + 3));
    m!("Box<[u32]>", 1, || (0..n as u32).collect::<Vec<u32>>().into_boxed_slice());
    m!("Box<[u128]>", 1, || (0..n as u128).collect::<Vec<u128>>().into_boxed_slice());
    // boxed slices whose elements own heap memory themselves (the recommended way to index a very long
    // sequence is a vector of RSQVectors)
    let chunk = (n / 4).max(1);
    m!("Box<[BitVector]>", 5, || bits.chunks(chunk).map(|c| c.iter().copied().collect::<BitVector>()).collect::<Vec<_>>().into_boxed_slice());
    m!("Box<[RSQVector256]>", 40, || quads.chunks(chunk).map(|c| qwt::RSQVector256::new(c)).collect::<Vec<_>>().into_boxed_slice());
    m!("Box<[RSWide]>", 20, || bits.chunks(chunk).map(|c| qwt::RSWide::new(c.iter().copied().collect())).collect::<Vec<_>>().into_boxed_slice());
    m!("Box<[Box<[u64]>]>", 5, || (0..4).map(|k| (0..(n / 8 + k) as u64).collect::<Vec<u64>>().into_boxed_slice()).collect::<Vec<_>>().into_boxed_slice());
    m!("u64", 0, || 7u64);
    m!("u128", 0, || 7u128);
    m!("bool", 0, || true);
    m!("f64", 0, || 1.5f64);
    if n >= 2 {
        rep.nontrivial();
    }
}

pub fn cases_c16(cfg: &Cfg) -> Vec<Case> {
    let mut rng = Rng::derive(cfg.seed, "c16", 0);
    let mut out = Vec::new();
    let aliases: Vec<&'static str> = PLAIN_QUAD.iter().chain(HUFF_QUAD.iter()).chain(BIN_TREES.iter()).copied().collect();
    let shapes: Vec<(Alpha, Dist, &'static str)> = vec![
        (Alpha::Dense(4), Dist::Uniform, "u8"),
        (Alpha::Dense(256), Dist::Zipf, "u8"),
        (Alpha::Dense(200), Dist::Uniform, "u16"),
        (Alpha::Holes { k: 300, max: 65535 }, Dist::Zipf, "u32"),
        (Alpha::Holes { k: 64, max: 1 << 20 }, Dist::Uniform, "u64"),
        (Alpha::Single(5), Dist::Equal, "usize"),
        (Alpha::Dense(17), Dist::Geometric(2.0), "u128"),
    ];
    for &n in &space_lens(cfg) {
        for (si, (alpha, dist, tname)) in shapes.iter().enumerate() {
            for (ai, alias) in aliases.iter().enumerate() {
                if n > 200_000 && (si + ai) % 5 != 0 {
                    continue;
                }
                if cfg.scale != Scale::Full && (si + ai) % 3 != 0 {
                    continue;
                }
                let alias: &'static str = alias;
                let tname: &'static str = tname;
                let spec = SeqSpec { n, alpha: alpha.clone(), dist: dist.clone(), layout: Layout::Iid, seed: rng.u64() };
                let ty = format!("{}<{}>", alias, tname);
                let class = format!("{}|{}", ty, spec.class());
                let desc = J::obj().set("spec", spec.to_json());
                out.push(Case::new(ty, class, desc, n as u64 * 8 + 500, move |rep: &mut Rep| {
                    with_tree!(alias, tname, run_c16_tree, rep, &spec);
                }));
            }
        }
        let seed = rng.u64();
        out.push(Case::new("vectors and generic impls", format!("vectors|n{}", len_bucket(n)), J::obj().set("n", n).set("seed", seed), n as u64 * 10 + 500, move |rep: &mut Rep| {
            run_c16_vectors(rep, n, seed)
        }));
    }
    out
}
