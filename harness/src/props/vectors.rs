//! C05 (rank/select quad vector), C06 (RSNarrow / RSWide), C07 (DArray): reference-model monitors.

use crate::adapters::*;
use crate::battery::{occurrence_indices, positions, Digest, BAD_POSITIONS};
use crate::catalogue::*;
use crate::chk;
use crate::gen::*;
use crate::json::J;
use crate::model::{BitModel, QuadModel};
use crate::outcome::{guard, Out};
use crate::prng::Rng;
use crate::report::{kind_of, Cfg, Exp, Rep, Scale, Tier};
use crate::Case;
use qwt::{AccessBin, BitVector, DArray, QVector, SelectBin};

pub fn budget(cfg: &Cfg) -> usize {
    match (cfg.scale, cfg.tier) {
        (Scale::Tiny, Tier::Quick) => 150,
        (Scale::Tiny, Tier::Thorough) => 400,
        (Scale::Mid, Tier::Quick) => 6_000,
        (Scale::Mid, Tier::Thorough) => 20_000,
        (Scale::Full, Tier::Quick) => 24_000,
        (Scale::Full, Tier::Thorough) => 100_000,
    }
}

fn thin<T>(v: Vec<T>, cfg: &Cfg, quick_k: usize, thorough_k: usize) -> Vec<T> {
    if cfg.scale != Scale::Tiny {
        return v;
    }
    let k = if cfg.tier == Tier::Quick { quick_k } else { thorough_k };
    v.into_iter().enumerate().filter(|(i, _)| i % k == 0).map(|(_, x)| x).collect()
}

pub fn report_build_panic(rep: &mut Rep, what: &str, p: &crate::outcome::PanicInfo) {
    let o: Out<()> = Out::Panic(p.clone());
    rep.tick("build");
    rep.viol("build", what.to_string(), "construction succeeds".into(), format!("{:?}", p), kind_of(&o));
}

// ---------------------------------------------------------------------------------------------
// C05
// ---------------------------------------------------------------------------------------------

pub fn build_quad<Q: QuadApi>(data: &[u8], path: u8) -> Q {
    match path % 4 {
        0 => Q::b_new_u8(data),
        1 => {
            let v: Vec<u64> = data.iter().map(|&x| x as u64).collect();
            Q::b_new_u64(&v)
        }
        2 => {
            let qv: QVector = data.iter().copied().collect();
            Q::b_from_qv(qv)
        }
        _ => Q::b_collect(data.to_vec()),
    }
}

pub fn quad_path_name(p: u8) -> &'static str {
    ["new_u8", "new_u64", "from_qvector", "collect"][(p % 4) as usize]
}

#[derive(Clone, Debug)]
pub struct VecOpts {
    pub budget: usize,
    pub unchecked: bool,
    pub invalid: bool,
}

pub const BAD_QUAD_SYMBOLS: [u8; 9] = [4, 5, 6, 7, 8, 16, 127, 128, 255];

pub fn quad_battery<Q: QuadApi>(rep: &mut Rep, q: &Q, m: &QuadModel, rng: &mut Rng, o: &VecOpts) -> Digest {
    let mut dg = Digest::default();
    let n = m.len();
    chk!(rep, "len", (), Exp::Is(n), q.len_());
    chk!(rep, "is_empty", (), Exp::Is(n == 0), q.is_empty_());
    // get
    for i in positions(n, o.budget / 5, rng) {
        let got = chk!(rep, "get", i, Exp::Is(Some(m.seq[i])), q.get_(i));
        if let Some(Some(v)) = got.as_val() {
            dg.add(1, *v as u128);
            if n >= 2 {
                rep.nontrivial();
            }
            if o.unchecked {
                let v = *v;
                chk!(rep, "get_unchecked", i, Exp::Is(v), unsafe { q.get_unchecked_(i) });
            }
        }
    }
    if o.invalid {
        for i in [n, n + 1, n + 255, n + 256, n + 512].into_iter().chain(BAD_POSITIONS) {
            if i >= n {
                chk!(rep, "get", i, Exp::Is(None), q.get_(i));
            }
        }
    }
    // rank
    for s in 0u8..4 {
        let mut ps = positions(n + 1, o.budget / 8, rng);
        if o.invalid {
            ps.extend([n + 1, n + 2, n + 256, n + 257, n + 4096]);
            ps.extend(BAD_POSITIONS);
        }
        for i in ps {
            let exp = if i <= n { Some(m.rank(s, i)) } else { None };
            let got = chk!(rep, "rank", (s, i), Exp::Is(exp), q.rank_(s, i));
            let gv = got.val().flatten();
            dg.add_opt(2, gv.map(|x| x as u128));
            if let Some(r) = gv {
                if r > 0 && n >= 2 {
                    rep.nontrivial();
                }
                if o.unchecked {
                    chk!(rep, "rank_unchecked", (s, i), Exp::Is(r), unsafe { q.rank_unchecked_(s, i) });
                }
            }
        }
    }
    if o.invalid {
        for s in BAD_QUAD_SYMBOLS {
            for i in [0usize, 1, n / 2, n, n + 1, usize::MAX] {
                chk!(rep, "rank", (s, i), Exp::Is(None), q.rank_(s, i));
            }
        }
    }
    // select
    for s in 0u8..4 {
        let count = m.occs(s);
        let mut ks = occurrence_indices(count, o.budget / 8, rng);
        if !o.invalid {
            ks.retain(|&k| k < count);
        }
        for k in ks {
            let exp = m.select(s, k);
            let got = chk!(rep, "select", (s, k), Exp::Is(exp), q.select_(s, k));
            let gv = got.val().flatten();
            dg.add_opt(3, gv.map(|x| x as u128));
            if let Some(p) = gv {
                if n >= 2 {
                    rep.nontrivial();
                }
                if o.unchecked {
                    chk!(rep, "select_unchecked", (s, k), Exp::Is(p), unsafe { q.select_unchecked_(s, k) });
                }
            }
        }
        if count > 8192 {
            rep.gate_max("max_select_samples_one_symbol", (count / 8192) as u64);
        }
    }
    if o.invalid {
        for s in BAD_QUAD_SYMBOLS {
            for k in [0usize, 1, n, usize::MAX] {
                chk!(rep, "select", (s, k), Exp::Is(None), q.select_(s, k));
            }
        }
    }
    // interleaved histories: consecutive occurrence indices, alternating symbols
    let lim = (0..4).map(|s| m.occs(s)).min().unwrap_or(0).min((o.budget / 16).max(16));
    for k in 0..lim {
        for s in [(k % 4) as u8, ((k + 1) % 4) as u8] {
            chk!(rep, "select[interleaved]", (s, k), Exp::Is(m.select(s, k)), q.select_(s, k));
            let p = m.select(s, k).unwrap();
            chk!(rep, "rank[interleaved]", (s, p), Exp::Is(Some(k)), q.rank_(s, p));
        }
    }
    // occs / occs_smaller
    for s in 0u8..4 {
        let got = chk!(rep, "occs", s, Exp::Is(Some(m.occs(s))), q.occs_(s));
        if let (true, Some(Some(v))) = (o.unchecked, got.as_val()) {
            let v = *v;
            chk!(rep, "occs_unchecked", s, Exp::Is(v), unsafe { q.occs_unchecked_(s) });
        }
        let got = chk!(rep, "occs_smaller", s, Exp::Is(Some(m.occs_smaller(s))), q.occs_smaller_(s));
        if let (true, Some(Some(v))) = (o.unchecked, got.as_val()) {
            let v = *v;
            chk!(rep, "occs_smaller_unchecked", s, Exp::Is(v), unsafe { q.occs_smaller_unchecked_(s) });
        }
    }
    if o.invalid {
        for s in BAD_QUAD_SYMBOLS {
            chk!(rep, "occs", s, Exp::Is(None), q.occs_(s));
            chk!(rep, "occs_smaller", s, Exp::Is(None), q.occs_smaller_(s));
        }
    }
    // iterators
    if n <= o.budget.max(64) {
        chk!(rep, "iter", "collect", Exp::Is(true), q.iter_vec() == m.seq);
        chk!(rep, "ref_into_iter", "collect", Exp::Is(true), q.ref_into_iter_vec() == m.seq);
        rep.tick_n("iter_items", 2 * n as u64);
    }
    rep.gate_max("max_n", n as u64);
    rep.gate_max("max_superblocks", (n / (Q::BLOCK * 8)) as u64);
    dg
}

fn run_quad_case<Q: QuadApi>(rep: &mut Rep, spec: &QuadSpec, path: u8, o: &VecOpts) {
    let data = gen_quads(spec);
    if data.len() <= 300 && (rep.cfg.shard == 0 || rep.cfg.only.is_some()) {
        // dumped in full for the offline re-check by run/logcheck.py
        rep.note("input", J::Arr(data.iter().map(|&x| J::Str(x.to_string())).collect()));
        rep.allow_events(80);
    }
    let m = QuadModel::new(data.clone());
    let mut rng = Rng::new(spec.seed ^ 0xC05);
    if rep.trace {
        rep.journal("build", quad_path_name(path));
    }
    let q = match guard(|| build_quad::<Q>(&data, path)) {
        Out::Val(q) => q,
        Out::Panic(p) => {
            report_build_panic(rep, quad_path_name(path), &p);
            return;
        }
    };
    rep.tick("build");
    quad_battery(rep, &q, &m, &mut rng, o);
}

pub fn quad_cases(cfg: &Cfg, o: &VecOpts) -> Vec<Case> {
    let mut out = Vec::new();
    let specs = thin(quad_specs(cfg.scale, cfg.tier, cfg.seed), cfg, 2, 1);
    for (bi, block) in [256usize, 512].into_iter().enumerate() {
        for (j, spec) in specs.iter().enumerate() {
            let spec = spec.clone();
            let path = ((j + bi) % 4) as u8;
            let ty = if block == 256 { "RSQVector256" } else { "RSQVector512" };
            let class = format!("{}|{}|{}", ty, spec.class(), quad_path_name(path));
            let desc = J::obj().set("spec", spec.to_json()).set("path", quad_path_name(path)).set("budget", o.budget);
            let o = o.clone();
            let w = spec.n as u64 / 16 + o.budget as u64;
            out.push(Case::new(ty, class, desc, w, move |rep: &mut Rep| {
                if block == 256 {
                    run_quad_case::<qwt::RSQVector256>(rep, &spec, path, &o)
                } else {
                    run_quad_case::<qwt::RSQVector512>(rep, &spec, path, &o)
                }
            }));
        }
    }
    out
}

pub fn cases_c05(cfg: &Cfg) -> Vec<Case> {
    quad_cases(cfg, &VecOpts { budget: budget(cfg), unchecked: false, invalid: true })
}

// ---------------------------------------------------------------------------------------------
// C06
// ---------------------------------------------------------------------------------------------

pub fn bin_battery<B: BinApi>(rep: &mut Rep, b: &B, m: &BitModel, rng: &mut Rng, o: &VecOpts) -> Digest {
    let mut dg = Digest::default();
    let n = m.len();
    let n1 = m.ones.len();
    let n0 = m.zeros.len();
    chk!(rep, "n_ones", (), Exp::Is(n1), b.n_ones_());
    chk!(rep, "n_zeros", (), Exp::Is(n0), b.n_zeros_());
    chk!(rep, "RankBin::n_zeros", (), Exp::Is(n0), b.trait_n_zeros_());
    if guard(|| b.bv_len_()).val().flatten().is_some() {
        chk!(rep, "bv_len", (), Exp::Is(Some(n)), b.bv_len_());
    }
    for i in positions(n, o.budget / 6, rng) {
        let got = chk!(rep, "get", i, Exp::Is(Some(m.bits[i])), b.get_(i));
        if let Some(Some(v)) = got.as_val() {
            dg.add(1, *v as u128);
            if o.unchecked {
                let v = *v;
                chk!(rep, "get_unchecked", i, Exp::Is(v), unsafe { b.get_unchecked_(i) });
            }
        }
    }
    if o.invalid {
        for i in [n, n + 1, n + 63, n + 64, n + 512].into_iter().chain(BAD_POSITIONS) {
            if i >= n {
                chk!(rep, "get", i, Exp::Is(None), b.get_(i));
            }
        }
    }
    // rank
    let mut ps = positions(n + 1, o.budget / 4, rng);
    if o.invalid {
        ps.extend([n + 1, n + 2, n + 64, n + 512, n + 513, n + 4096]);
        ps.extend(BAD_POSITIONS);
    }
    for i in ps {
        let (e1, e0): (Exp<Option<usize>>, Exp<Option<usize>>) = if i > n {
            (Exp::Is(None), Exp::Is(None))
        } else if n == 0 {
            // "on an empty vector no query returns a position or a non-zero count"
            (Exp::Either(None, Some(0)), Exp::Either(None, Some(0)))
        } else {
            (Exp::Is(Some(m.rank1(i))), Exp::Is(Some(m.rank0(i))))
        };
        let got = chk!(rep, "rank1", i, e1, b.rank1_(i));
        let gv = got.val().flatten();
        dg.add_opt(2, gv.map(|x| x as u128));
        if let Some(r) = gv {
            if r > 0 && n >= 2 {
                rep.nontrivial();
            }
            if o.unchecked && n > 0 {
                chk!(rep, "rank1_unchecked", i, Exp::Is(r), unsafe { b.rank1_unchecked_(i) });
            }
        }
        let got = chk!(rep, "rank0", i, e0, b.rank0_(i));
        let gv = got.val().flatten();
        dg.add_opt(3, gv.map(|x| x as u128));
        if let Some(r) = gv {
            if o.unchecked && n > 0 {
                chk!(rep, "rank0_unchecked", i, Exp::Is(r), unsafe { b.rank0_unchecked_(i) });
            }
        }
    }
    // select
    for k in occurrence_indices_bits(n1, o.budget / 4, o.invalid, rng) {
        let exp = m.ones.get(k).copied();
        let got = chk!(rep, "select1", k, Exp::Is(exp), b.select1_(k));
        let gv = got.val().flatten();
        dg.add_opt(4, gv.map(|x| x as u128));
        if let Some(p) = gv {
            if n >= 2 {
                rep.nontrivial();
            }
            if o.unchecked {
                chk!(rep, "select1_unchecked", k, Exp::Is(p), unsafe { b.select1_unchecked_(k) });
            }
        }
    }
    for k in occurrence_indices_bits(n0, o.budget / 4, o.invalid, rng) {
        let exp = m.zeros.get(k).copied();
        let got = chk!(rep, "select0", k, Exp::Is(exp), b.select0_(k));
        let gv = got.val().flatten();
        dg.add_opt(5, gv.map(|x| x as u128));
        if let Some(p) = gv {
            if n >= 2 {
                rep.nontrivial();
            }
            if o.unchecked {
                chk!(rep, "select0_unchecked", k, Exp::Is(p), unsafe { b.select0_unchecked_(k) });
            }
        }
    }
    // interleaved histories over consecutive indices
    let lim = n1.min(n0).min((o.budget / 8).max(32));
    let start = if lim > 0 { rng.usize_below(lim) / 2 } else { 0 };
    for k in start..lim {
        chk!(rep, "select1[interleaved]", k, Exp::Is(Some(m.ones[k])), b.select1_(k));
        chk!(rep, "select0[interleaved]", k, Exp::Is(Some(m.zeros[k])), b.select0_(k));
        let p = m.ones[k];
        chk!(rep, "rank1[interleaved]", p, Exp::Is(Some(k)), b.rank1_(p));
    }
    rep.gate_max("max_n", n as u64);
    rep.gate_max("max_ones", n1 as u64);
    rep.gate_max("max_zeros", n0 as u64);
    dg
}

/// occurrence indices with the hint periods of both structures (1024 and 8192)
pub fn occurrence_indices_bits(count: usize, cap: usize, invalid: bool, rng: &mut Rng) -> Vec<usize> {
    let mut v = occurrence_indices(count, cap / 2, rng);
    let mut k = 1024usize;
    let mut added = 0;
    while k <= count + 1 && added < cap / 2 {
        v.extend([k - 1, k, k + 1]);
        k += 1024;
        added += 3;
    }
    if !invalid {
        v.retain(|&k| k < count);
    }
    v.sort_unstable();
    v.dedup();
    v
}

fn run_bin_case<B: BinApi>(rep: &mut Rep, spec: &BitSpec, path: u8, o: &VecOpts) {
    let bits = gen_bits(spec);
    if bits.len() <= 300 && (rep.cfg.shard == 0 || rep.cfg.only.is_some()) {
        rep.note("input", J::Arr(bits.iter().map(|&x| J::Str((x as u8).to_string())).collect()));
        rep.allow_events(80);
    }
    let m = BitModel::new(bits.clone());
    let mut rng = Rng::new(spec.seed ^ 0xC06);
    let built = guard(|| {
        let bv: BitVector = if path & 2 == 0 { bits.iter().copied().collect() } else { m.ones.iter().copied().collect::<BitVector>() };
        // a position list cannot express trailing zeros: only use it when the last bit is a one
        let bv = if path & 2 != 0 && bits.last() != Some(&true) { bits.iter().copied().collect() } else { bv };
        if path & 1 == 0 {
            B::b_new(bv)
        } else {
            B::b_from(bv)
        }
    });
    let b = match built {
        Out::Val(b) => b,
        Out::Panic(p) => {
            report_build_panic(rep, "new/from", &p);
            return;
        }
    };
    rep.tick("build");
    bin_battery(rep, &b, &m, &mut rng, o);
}

pub fn bin_cases(cfg: &Cfg, o: &VecOpts) -> Vec<Case> {
    let mut out = Vec::new();
    let specs = thin(bit_specs(cfg.scale, cfg.tier, cfg.seed), cfg, 2, 1);
    for (ti, ty) in ["RSNarrow", "RSWide"].into_iter().enumerate() {
        for (j, spec) in specs.iter().enumerate() {
            let spec = spec.clone();
            let path = ((j + ti) % 4) as u8;
            let class = format!("{}|{}|p{}", ty, spec.class(), path);
            let desc = J::obj().set("spec", spec.to_json()).set("path", path).set("budget", o.budget);
            let o = o.clone();
            let w = spec.n as u64 / 32 + o.budget as u64;
            out.push(Case::new(ty, class, desc, w, move |rep: &mut Rep| {
                if ty == "RSNarrow" {
                    run_bin_case::<qwt::RSNarrow>(rep, &spec, path, &o)
                } else {
                    run_bin_case::<qwt::RSWide>(rep, &spec, path, &o)
                }
            }));
        }
    }
    out
}

pub fn cases_c06(cfg: &Cfg) -> Vec<Case> {
    bin_cases(cfg, &VecOpts { budget: budget(cfg), unchecked: false, invalid: true })
}

// ---------------------------------------------------------------------------------------------
// C07
// ---------------------------------------------------------------------------------------------

pub fn darray_battery<const S0: bool>(rep: &mut Rep, d: &DArray<S0>, m: &BitModel, rng: &mut Rng, o: &VecOpts) -> Digest {
    let mut dg = Digest::default();
    let n = m.len();
    let n1 = m.ones.len();
    let n0 = m.zeros.len();
    chk!(rep, "len", (), Exp::Is(n), d.len());
    chk!(rep, "is_empty", (), Exp::Is(n == 0), d.is_empty());
    chk!(rep, "count_ones", (), Exp::Is(n1), d.count_ones());
    chk!(rep, "count_zeros", (), Exp::Is(n0), d.count_zeros());
    for i in positions(n, o.budget / 8, rng) {
        let got = chk!(rep, "get", i, Exp::Is(Some(m.bits[i])), AccessBin::get(d, i));
        if let (true, Some(Some(v))) = (o.unchecked, got.as_val()) {
            let v = *v;
            chk!(rep, "get_unchecked", i, Exp::Is(v), unsafe { AccessBin::get_unchecked(d, i) });
        }
    }
    if o.invalid {
        for i in [n, n + 1, n + 64].into_iter().chain(BAD_POSITIONS) {
            if i >= n {
                chk!(rep, "get", i, Exp::Is(None), AccessBin::get(d, i));
            }
        }
    }
    // select1: every k when affordable
    let ks: Vec<usize> = if n1 <= o.budget * 4 { (0..n1).collect() } else { occurrence_indices_bits(n1, o.budget, false, rng) };
    for k in ks {
        let got = chk!(rep, "select1", k, Exp::Is(Some(m.ones[k])), d.select1(k));
        let gv = got.val().flatten();
        dg.add_opt(1, gv.map(|x| x as u128));
        if let Some(p) = gv {
            if n >= 2 {
                rep.nontrivial();
            }
            if o.unchecked {
                chk!(rep, "select1_unchecked", k, Exp::Is(p), unsafe { d.select1_unchecked(k) });
            }
        }
    }
    if o.invalid {
        for k in [n1, n1 + 1, n1 + 1024, usize::MAX, usize::MAX - 1, 1 << 63] {
            chk!(rep, "select1", k, Exp::Is(None), d.select1(k));
        }
    }
    if S0 {
        let ks: Vec<usize> = if n0 <= o.budget * 4 { (0..n0).collect() } else { occurrence_indices_bits(n0, o.budget, false, rng) };
        for k in ks {
            let got = chk!(rep, "select0", k, Exp::Is(Some(m.zeros[k])), d.select0(k));
            let gv = got.val().flatten();
            dg.add_opt(2, gv.map(|x| x as u128));
            if let Some(p) = gv {
                if o.unchecked {
                    chk!(rep, "select0_unchecked", k, Exp::Is(p), unsafe { d.select0_unchecked(k) });
                }
            }
        }
        if o.invalid {
            for k in [n0, n0 + 1, n0 + 1024, usize::MAX, usize::MAX - 1, 1 << 63] {
                chk!(rep, "select0", k, Exp::Is(None), d.select0(k));
            }
        }
    }
    // interleaved histories: consecutive occurrence indices alternating between the two kinds of
    // query (and back and forth), as a cursor or memo inside the structure would see them
    if S0 {
        let lim = n1.min(n0).min(o.budget.max(64));
        let start = if lim > 0 { rng.usize_below(lim) / 2 } else { 0 };
        for k in start..lim {
            if k % 2 == 0 {
                chk!(rep, "select1[interleaved]", k, Exp::Is(Some(m.ones[k])), d.select1(k));
            } else {
                chk!(rep, "select0[interleaved]", k, Exp::Is(Some(m.zeros[k])), d.select0(k));
            }
        }
        for k in 0..lim.min(200) {
            chk!(rep, "select1[interleaved]", k, Exp::Is(Some(m.ones[k])), d.select1(k));
            chk!(rep, "select0[interleaved]", k, Exp::Is(Some(m.zeros[k])), d.select0(k));
            if k + 1 < lim {
                chk!(rep, "select0[interleaved]", k + 1, Exp::Is(Some(m.zeros[k + 1])), d.select0(k + 1));
                chk!(rep, "select1[interleaved]", k + 1, Exp::Is(Some(m.ones[k + 1])), d.select1(k + 1));
            }
        }
    } else {
        let lim = n1.min(o.budget.max(64));
        for k in (0..lim).rev().take(300) {
            chk!(rep, "select1[descending]", k, Exp::Is(Some(m.ones[k])), d.select1(k));
        }
    }
    // iterators
    if n <= o.budget * 40 {
        chk!(rep, "ones", "collect", Exp::Is(true), d.ones().collect::<Vec<usize>>() == m.ones);
        chk!(rep, "zeros", "collect", Exp::Is(true), d.zeros().collect::<Vec<usize>>() == m.zeros);
        chk!(rep, "iter", "collect", Exp::Is(true), d.iter().collect::<Vec<bool>>() == m.bits);
        rep.tick_n("iter_items", 2 * n as u64);
    }
    rep.gate_max("max_n", n as u64);
    dg
}

#[derive(Clone, Debug)]
pub enum DaInput {
    Groups(GroupSpec),
    Bits(BitSpec),
}

fn run_darray_case<const S0: bool>(rep: &mut Rep, input: &DaInput, complement: bool, from_bits: bool, o: &VecOpts) {
    let mut bits: Vec<bool> = match input {
        DaInput::Groups(g) => {
            let pos = gen_group_positions(g);
            let n = pos.last().map(|&p| p + 1 + g.tail).unwrap_or(g.tail);
            let mut b = vec![false; n];
            for p in pos {
                b[p] = true;
            }
            b
        }
        DaInput::Bits(s) => gen_bits(s),
    };
    if complement {
        for b in bits.iter_mut() {
            *b = !*b;
        }
    }
    let m = BitModel::new(bits);
    let seed = match input {
        DaInput::Groups(g) => g.seed,
        DaInput::Bits(s) => s.seed,
    };
    let mut rng = Rng::new(seed ^ 0xC07);
    // a position list cannot express trailing zeros
    let use_positions = !from_bits && m.bits.last() == Some(&true);
    let built = guard(|| -> DArray<S0> {
        if use_positions {
            m.ones.iter().copied().collect()
        } else if rng.clone().bool() {
            m.bits.iter().copied().collect()
        } else {
            DArray::<S0>::new(m.bits.iter().copied().collect::<BitVector>())
        }
    });
    let d = match built {
        Out::Val(d) => d,
        Out::Panic(p) => {
            report_build_panic(rep, "DArray::new/collect", &p);
            return;
        }
    };
    rep.tick("build");
    darray_battery(rep, &d, &m, &mut rng, o);
}

pub fn darray_group_specs(cfg: &Cfg) -> Vec<GroupSpec> {
    let mut rng = Rng::derive(cfg.seed, "darray_groups", 0);
    let dense = Group::Stepped { count: 1024, step: 1 };
    let dense2 = Group::Stepped { count: 1024, step: 60 };
    let sparse = Group::Stepped { count: 1024, step: 100 };
    let sparse2 = Group::Stepped { count: 1024, step: 65 };
    let t_lo = Group::Span { count: 1024, span: 65535 };
    let t_eq = Group::Span { count: 1024, span: 65536 };
    let t_hi = Group::Span { count: 1024, span: 65537 };
    let partial = Group::Stepped { count: 100, step: 3 };
    let partial_head = Group::Span { count: 33, span: 65535 };
    let partial_sparse = Group::Span { count: 33, span: 70000 };
    // partial last groups exactly at the dense/sparse threshold whose last one is a sub-group head
    let partial_head_eq = Group::Span { count: 33, span: 65536 };
    let partial_head_eq2 = Group::Span { count: 65, span: 65536 };
    let partial_head_hi = Group::Span { count: 97, span: 65537 };
    let mut out = Vec::new();
    let mut push = |groups: Vec<Group>, rng: &mut Rng| {
        out.push(GroupSpec { groups, lead: rng.usize_below(200), gap: 1 + rng.usize_below(300), tail: rng.usize_below(130), seed: rng.u64() });
    };
    if cfg.scale == Scale::Tiny {
        push(vec![sparse2, dense], &mut rng);
        if cfg.tier == Tier::Thorough {
            push(vec![dense, t_lo, partial], &mut rng);
            push(vec![t_eq, dense2, partial_head], &mut rng);
        }
        return out;
    }
    let kinds = [dense, sparse, t_lo, t_eq, t_hi, dense2, sparse2];
    // all 2-group and 3-group sequences over the main kinds, each followed by every kind of last group
    let lasts = [None, Some(partial), Some(partial_head), Some(partial_sparse), Some(partial_head_eq), Some(partial_head_eq2), Some(partial_head_hi)];
    let mut li = 0;
    for a in kinds {
        for b in kinds {
            let mut g = vec![a, b];
            if let Some(l) = lasts[li % lasts.len()] {
                g.push(l);
            }
            li += 1;
            push(g, &mut rng);
        }
    }
    let main = [dense, sparse, t_lo, t_eq, t_hi];
    let stride = if cfg.scale == Scale::Full { 1 } else { 4 };
    let mut c = 0;
    for a in main {
        for b in main {
            for d in main {
                c += 1;
                if c % stride != 0 {
                    continue;
                }
                let mut g = vec![a, b, d];
                if let Some(l) = lasts[li % lasts.len()] {
                    g.push(l);
                }
                li += 1;
                push(g, &mut rng);
            }
        }
    }
    // dense blocks whose last sub-block starts next to the 16-bit offset limit (65535 - 32 = 65503 is the largest
    // possible start), with a hole inside it; followed by nothing, a sparse block, a dense block, a partial block
    for (j, tail_at) in [65503usize, 65502, 65501, 65495, 65472, 65471, 32768, 60000].into_iter().enumerate() {
        let lt = Group::LateTail { count: 1024, tail_at, hole: 1 + (j * 7) % 31 };
        for follow in [None, Some(sparse), Some(dense), Some(partial_sparse), Some(t_eq)] {
            if cfg.scale != Scale::Full && j > 2 && follow.is_some() {
                continue;
            }
            let mut g = vec![lt];
            if let Some(f) = follow {
                g.push(f);
            }
            push(g, &mut rng);
            if j < 3 {
                if let Some(f) = follow {
                    push(vec![f, lt, f], &mut rng);
                }
            }
        }
    }
    // single groups and partial-only inputs
    for g in [dense, sparse, t_lo, t_eq, t_hi, partial, partial_head, partial_sparse, partial_head_eq, partial_head_eq2, partial_head_hi] {
        push(vec![g], &mut rng);
    }
    // random mixtures
    let n_random = match (cfg.scale, cfg.tier) {
        (Scale::Full, Tier::Thorough) => 200,
        (Scale::Full, Tier::Quick) => 12,
        (_, Tier::Thorough) => 20,
        _ => 3,
    };
    for _ in 0..n_random {
        let k = 2 + rng.usize_below(9);
        let mut g = Vec::new();
        for _ in 0..k {
            g.push(match rng.below(8) {
                0 => dense,
                1 => sparse,
                2 => t_lo,
                3 => t_eq,
                4 => t_hi,
                5 => Group::Random { count: 1024, mean_gap: 1 + rng.usize_below(100) },
                6 => Group::Stepped { count: 1024, step: 1 + rng.usize_below(80) },
                _ => Group::Random { count: 1 + rng.usize_below(2000), mean_gap: 1 + rng.usize_below(40) },
            });
        }
        push(g, &mut rng);
    }
    out
}

pub fn darray_cases(cfg: &Cfg, o: &VecOpts) -> Vec<Case> {
    let mut out = Vec::new();
    let mut idx = 0usize;
    let mut add = |input: DaInput, class: String, desc: J, w: u64, out: &mut Vec<Case>| {
        for s0 in [false, true] {
            // the complement exercises the zero inventories with the same group structure
            let complement = s0 && idx % 2 == 0;
            let from_bits = idx % 3 == 0;
            idx += 1;
            let input = input.clone();
            let o = o.clone();
            let ty = if s0 { "DArray<true>" } else { "DArray<false>" };
            let class = format!("{}|{}|c{}", ty, class, complement as u8);
            let desc = desc.clone().set("complement", complement).set("from_bits", from_bits);
            let gclass = class.clone();
            out.push(Case::new(ty, class, desc, w, move |rep: &mut Rep| {
                if let Some(g) = gclass.split("groups:").nth(1) {
                    let g = g.split('|').next().unwrap_or("");
                    if g.contains("sd") {
                        rep.gate_add("dense_group_after_sparse_group", 1);
                    }
                    if g.contains('t') || g.contains('T') {
                        rep.gate_add("threshold_group", 1);
                    }
                    if g.ends_with('p') {
                        rep.gate_add("partial_last_group", 1);
                    }
                }
                rep.gate_add(if s0 { "select0_support_true" } else { "select0_support_false" }, 1);
                if s0 {
                    run_darray_case::<true>(rep, &input, complement, from_bits, &o)
                } else {
                    run_darray_case::<false>(rep, &input, complement, from_bits, &o)
                }
            }));
        }
    };
    for g in darray_group_specs(cfg) {
        let w = 200_000 * g.groups.len() as u64;
        let class = format!("groups:{}", g.class());
        let desc = J::obj().set("groups", g.to_json());
        add(DaInput::Groups(g), class, desc, w, &mut out);
    }
    let bspecs = thin(bit_specs(cfg.scale, cfg.tier, cfg.seed ^ 7), cfg, 8, 3);
    for (j, b) in bspecs.into_iter().enumerate() {
        if cfg.scale != Scale::Full && j % 3 != 0 {
            continue;
        }
        let w = b.n as u64;
        let class = format!("bits:{}", b.class());
        let desc = J::obj().set("bits", b.to_json());
        add(DaInput::Bits(b), class, desc, w, &mut out);
    }
    out
}

pub fn cases_c07(cfg: &Cfg) -> Vec<Case> {
    darray_cases(cfg, &VecOpts { budget: budget(cfg), unchecked: false, invalid: true })
}
