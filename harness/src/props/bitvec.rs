//! C08: mutable / immutable bit vectors behave as a plain sequence of booleans under any
//! operation history (history monitor: BitVectorMut and Vec<bool> in lock-step).

use crate::chk;
use crate::json::J;
use crate::outcome::guard;
use crate::prng::Rng;
use crate::report::{Cfg, Exp, Rep, Scale, Tier};
use crate::Case;
use qwt::{AccessBin, BitVector, BitVectorMut};

#[derive(Clone, Debug)]
pub struct HistSpec {
    pub seed: u64,
    pub n_ops: usize,
    /// 0 = small (every op observed), 1 = boundary crossing, 2 = big jumps, 3 = overwrite heavy
    pub profile: u8,
}

fn model_word(m: &[bool], w: usize) -> u64 {
    let mut v = 0u64;
    for j in 0..64 {
        let p = w * 64 + j;
        if p < m.len() && m[p] {
            v |= 1 << j;
        }
    }
    v
}

fn model_bits(m: &[bool], index: usize, len: usize) -> u64 {
    let mut v = 0u64;
    for j in 0..len {
        if m[index + j] {
            v |= 1 << j;
        }
    }
    v
}

/// Readers shared by BitVectorMut and BitVector.
pub trait BitReaders {
    fn r_len(&self) -> usize;
    fn r_is_empty(&self) -> bool;
    fn r_count_ones(&self) -> usize;
    fn r_count_zeros(&self) -> usize;
    fn r_get(&self, i: usize) -> Option<bool>;
    unsafe fn r_get_unchecked(&self, i: usize) -> bool;
    fn r_get_bits(&self, i: usize, len: usize) -> Option<u64>;
    unsafe fn r_get_bits_unchecked(&self, i: usize, len: usize) -> u64;
    fn r_get_word(&self, w: usize) -> u64;
    fn r_iter(&self) -> Vec<bool>;
    fn r_iter_len(&self) -> usize;
    fn r_ones(&self) -> Vec<usize>;
    fn r_zeros(&self) -> Vec<usize>;
    fn r_ones_with_pos(&self, p: usize) -> Vec<usize>;
    fn r_zeros_with_pos(&self, p: usize) -> Vec<usize>;
    const NAME: &'static str;
    /// op name for get_bits on a range that ends exactly at the last bit
    const OP_GET_BITS_END: &'static str;
}

macro_rules! impl_readers {
    ($t:ty, $name:expr) => {
        impl BitReaders for $t {
            const NAME: &'static str = $name;
            const OP_GET_BITS_END: &'static str = concat!($name, "::get_bits[range ends at the last bit]");
            fn r_len(&self) -> usize {
                self.len()
            }
            fn r_is_empty(&self) -> bool {
                self.is_empty()
            }
            fn r_count_ones(&self) -> usize {
                self.count_ones()
            }
            fn r_count_zeros(&self) -> usize {
                self.count_zeros()
            }
            fn r_get(&self, i: usize) -> Option<bool> {
                AccessBin::get(self, i)
            }
            unsafe fn r_get_unchecked(&self, i: usize) -> bool {
                AccessBin::get_unchecked(self, i)
            }
            fn r_get_bits(&self, i: usize, len: usize) -> Option<u64> {
                self.get_bits(i, len)
            }
            unsafe fn r_get_bits_unchecked(&self, i: usize, len: usize) -> u64 {
                self.get_bits_unchecked(i, len)
            }
            fn r_get_word(&self, w: usize) -> u64 {
                self.get_word(w)
            }
            fn r_iter(&self) -> Vec<bool> {
                self.iter().collect()
            }
            fn r_iter_len(&self) -> usize {
                self.iter().len()
            }
            fn r_ones(&self) -> Vec<usize> {
                self.ones().collect()
            }
            fn r_zeros(&self) -> Vec<usize> {
                self.zeros().collect()
            }
            fn r_ones_with_pos(&self, p: usize) -> Vec<usize> {
                self.ones_with_pos(p).collect()
            }
            fn r_zeros_with_pos(&self, p: usize) -> Vec<usize> {
                self.zeros_with_pos(p).collect()
            }
        }
    };
}
impl_readers!(BitVectorMut, "BitVectorMut");
impl_readers!(BitVector, "BitVector");

/// cheap observation: scalars and a few bits
pub fn observe_light<B: BitReaders>(rep: &mut Rep, b: &B, m: &[bool], rng: &mut Rng) {
    let n = m.len();
    let ones = m.iter().filter(|&&x| x).count();
    chk!(rep, "len", B::NAME, Exp::Is(n), b.r_len());
    chk!(rep, "count_ones", B::NAME, Exp::Is(ones), b.r_count_ones());
    chk!(rep, "count_zeros", B::NAME, Exp::Is(n - ones), b.r_count_zeros());
    chk!(rep, "is_empty", B::NAME, Exp::Is(n == 0), b.r_is_empty());
    for _ in 0..4 {
        if n > 0 {
            let i = rng.usize_below(n);
            chk!(rep, "get", (B::NAME, i), Exp::Is(Some(m[i])), b.r_get(i));
        }
    }
    if n > 0 {
        chk!(rep, "get", (B::NAME, n - 1), Exp::Is(Some(m[n - 1])), b.r_get(n - 1));
    }
    chk!(rep, "get", (B::NAME, n), Exp::Is(None), b.r_get(n));
}

/// full observation of every reader
pub fn observe_full<B: BitReaders>(rep: &mut Rep, b: &B, m: &[bool], rng: &mut Rng, unchecked: bool, budget: usize) {
    observe_full_opt(rep, b, m, rng, unchecked, budget, true)
}

/// `check_values_at_end = false`: reads of a range that ends at the last bit are only required not to
/// panic (used by C04, whose subject is totality; the values are C08's subject)
pub fn observe_full_opt<B: BitReaders>(rep: &mut Rep, b: &B, m: &[bool], rng: &mut Rng, unchecked: bool, budget: usize, check_values_at_end: bool) {
    let n = m.len();
    observe_light(rep, b, m, rng);
    if n >= 2 {
        rep.nontrivial();
    }
    // get: everything when small
    let all: Vec<usize> = if n <= budget { (0..n).collect() } else { crate::battery::positions(n, budget, rng) };
    for &i in &all {
        let got = chk!(rep, "get", (B::NAME, i), Exp::Is(Some(m[i])), b.r_get(i));
        if unchecked && got.as_val().is_some() {
            chk!(rep, "get_unchecked", (B::NAME, i), Exp::Is(m[i]), unsafe { b.r_get_unchecked(i) });
        }
    }
    for i in [n + 1, n + 63, n + 64, n + 512, usize::MAX] {
        chk!(rep, "get", (B::NAME, i), Exp::Is(None), b.r_get(i));
    }
    // get_bits: every length at starts around word / line boundaries, at the last legal start,
    // and one past it
    let mut starts: Vec<usize> = vec![0, 1, 63, 64, 65];
    for base in [64usize, 128, 448, 512, 576, 1024, 4096] {
        for d in [-65i64, -64, -63, -33, -1, 0, 1, 31] {
            let s = base as i64 + d;
            if s >= 0 {
                starts.push(s as usize);
            }
        }
    }
    for _ in 0..6 {
        if n > 0 {
            starts.push(rng.usize_below(n));
        }
    }
    starts.sort_unstable();
    starts.dedup();
    let lens: Vec<usize> = if budget >= 2000 { (1..=64).collect() } else { vec![1, 2, 7, 31, 32, 33, 63, 64] };
    for &len in &lens {
        let mut cand = starts.clone();
        if n >= len {
            cand.push(n - len); // last legal start
            cand.push(n - len + 1); // first illegal one
        }
        for &st in &cand {
            let exp = if st.checked_add(len).map_or(false, |e| e <= n) { Some(model_bits(m, st, len)) } else { None };
            let at_end = st.checked_add(len) == Some(n);
            let op = if at_end { B::OP_GET_BITS_END } else { "get_bits" };
            if at_end && !check_values_at_end {
                chk!(rep, op, (B::NAME, st, len), Exp::AnyVal, b.r_get_bits(st, len));
                continue;
            }
            let got = chk!(rep, op, (B::NAME, st, len), Exp::Is(exp), b.r_get_bits(st, len));
            if let (true, Some(Some(v))) = (unchecked, got.as_val()) {
                let v = *v;
                chk!(rep, "get_bits_unchecked", (B::NAME, st, len), Exp::Is(v), unsafe { b.r_get_bits_unchecked(st, len) });
            }
        }
    }
    for (st, len) in [(0usize, 0usize), (0, 65), (0, 128), (n, 1), (n, 0), (n / 2, 0)] {
        chk!(rep, "get_bits", (B::NAME, st, len), Exp::Is(None), b.r_get_bits(st, len));
    }
    // whole words: exact inside, zero padding after the last bit
    let nwords = (n + 63) / 64;
    let wcap = (budget / 8).max(16);
    let words: Vec<usize> = if nwords <= wcap { (0..nwords).collect() } else { crate::battery::positions(nwords, wcap, rng) };
    for &w in &words {
        chk!(rep, "get_word", (B::NAME, w), Exp::Is(model_word(m, w)), b.r_get_word(w));
    }
    // words of the allocated last line beyond the last bit: zero padding (or the documented
    // out-of-range panic)
    let nlines_words = ((n + 511) / 512) * 8;
    for w in nwords..nlines_words.min(nwords + 8) {
        chk!(rep, "get_word_padding", (B::NAME, w), Exp::PanicOr(0u64), b.r_get_word(w));
    }
    // iterators
    let ones: Vec<usize> = (0..n).filter(|&i| m[i]).collect();
    let zeros: Vec<usize> = (0..n).filter(|&i| !m[i]).collect();
    chk!(rep, "iter", B::NAME, Exp::Is(true), b.r_iter() == m);
    chk!(rep, "iter.len", B::NAME, Exp::Is(n), b.r_iter_len());
    chk!(rep, "ones", B::NAME, Exp::Is(true), b.r_ones() == ones);
    chk!(rep, "zeros", B::NAME, Exp::Is(true), b.r_zeros() == zeros);
    rep.tick_n("iter_items", 3 * n as u64);
    let mut ps: Vec<usize> = vec![0, 1, 63, 64, 65, 511, 512, 513, n.saturating_sub(1), n, n + 1, n + 64, n + 1000];
    for _ in 0..6 {
        if n > 0 {
            ps.push(rng.usize_below(n));
        }
    }
    ps.sort_unstable();
    ps.dedup();
    if crate::tiny() {
        // stray dbg! in *_with_pos: stderr writes are extremely slow under the interpreters
        ps = vec![1, n / 2, n + 64];
    }
    for &p in &ps {
        let eo: Vec<usize> = ones.iter().copied().filter(|&x| x >= p).collect();
        let ez: Vec<usize> = zeros.iter().copied().filter(|&x| x >= p).collect();
        chk!(rep, "ones_with_pos", (B::NAME, p), Exp::Is(true), b.r_ones_with_pos(p) == eo);
        chk!(rep, "zeros_with_pos", (B::NAME, p), Exp::Is(true), b.r_zeros_with_pos(p) == ez);
    }
}

fn apply_op(rep: &mut Rep, bvm: &mut BitVectorMut, m: &mut Vec<bool>, rng: &mut Rng, profile: u8) -> &'static str {
    let n = m.len();
    let r = rng.below(100);
    // weights by profile
    let (w_push, w_append, w_zeros, w_set, w_setbits, w_extb, w_extp) = match profile {
        0 => (30, 20, 5, 15, 20, 5, 5),
        1 => (10, 35, 10, 10, 25, 5, 5),
        2 => (5, 15, 35, 10, 15, 5, 15),
        _ => (5, 10, 5, 25, 45, 5, 5),
    };
    let mut acc = w_push;
    if r < acc {
        let bit = rng.bool();
        let out = guard(|| bvm.push(bit));
        m.push(bit);
        rep.tick("op:push");
        if out.is_panic() {
            rep.viol("push", format!("{}", bit), "no panic".into(), format!("{:?}", out), crate::report::kind_of(&out));
        }
        return "push";
    }
    acc += w_append;
    if r < acc {
        let len = match rng.below(6) {
            0 => 64,
            1 => 0,
            2 => 1,
            _ => rng.usize_below(65),
        };
        let bits = if len == 64 { rng.u64() } else { rng.u64() & ((1u64 << len) - 1) };
        let bits = if rng.chance(1, 8) { 0 } else if rng.chance(1, 8) && len > 0 { if len == 64 { u64::MAX } else { (1u64 << len) - 1 } } else { bits };
        let out = guard(|| bvm.append_bits(bits, len));
        for j in 0..len {
            m.push((bits >> j) & 1 == 1);
        }
        rep.tick("op:append_bits");
        if out.is_panic() {
            rep.viol("append_bits", format!("({:#x},{})", bits, len), "no panic".into(), format!("{:?}", out), crate::report::kind_of(&out));
        }
        return "append_bits";
    }
    acc += w_zeros;
    if r < acc {
        let k = match (profile, rng.below(5)) {
            (2, 0) => rng.usize_below(5000),
            (_, 0) => 0,
            (_, 1) => 512 - (n % 512),      // exactly to the line boundary
            (_, 2) => 64 - (n % 64) + 1,    // one past the word boundary
            _ => rng.usize_below(700),
        };
        let out = guard(|| bvm.extend_with_zeros(k));
        m.resize(n + k, false);
        rep.tick("op:extend_with_zeros");
        if out.is_panic() {
            rep.viol("extend_with_zeros", format!("{}", k), "no panic".into(), format!("{:?}", out), crate::report::kind_of(&out));
        }
        return "extend_with_zeros";
    }
    acc += w_set;
    if r < acc && n > 0 {
        let i = if rng.chance(1, 4) { n - 1 } else { rng.usize_below(n) };
        let bit = rng.bool();
        let out = guard(|| bvm.set(i, bit));
        m[i] = bit;
        rep.tick("op:set");
        if out.is_panic() {
            rep.viol("set", format!("({},{})", i, bit), "no panic".into(), format!("{:?}", out), crate::report::kind_of(&out));
        }
        return "set";
    }
    acc += w_setbits;
    if r < acc && n > 0 {
        let len = match rng.below(6) {
            0 => 64.min(n),
            1 => 0,
            2 => 1,
            _ => rng.usize_below(65.min(n + 1)),
        };
        let i = match rng.below(4) {
            0 => n - len, // last legal start
            1 => (rng.usize_below(n - len + 1) / 64) * 64,
            _ => rng.usize_below(n - len + 1),
        };
        let i = i.min(n - len);
        let mut bits = if len == 64 { rng.u64() } else { rng.u64() & ((1u64 << len) - 1) };
        if rng.chance(1, 5) {
            bits = 0; // overwriting ones with zeros: stale cached counts
        }
        let out = guard(|| bvm.set_bits(i, len, bits));
        for j in 0..len {
            m[i + j] = (bits >> j) & 1 == 1;
        }
        rep.tick("op:set_bits");
        if out.is_panic() {
            rep.viol("set_bits", format!("({},{},{:#x})", i, len, bits), "no panic".into(), format!("{:?}", out), crate::report::kind_of(&out));
        }
        return "set_bits";
    }
    acc += w_extb;
    if r < acc {
        let k = rng.usize_below(150);
        let v: Vec<bool> = (0..k).map(|_| rng.bool()).collect();
        let out = guard(|| bvm.extend(v.iter().copied()));
        m.extend_from_slice(&v);
        rep.tick("op:extend_bools");
        if out.is_panic() {
            rep.viol("extend<bool>", format!("len {}", k), "no panic".into(), format!("{:?}", out), crate::report::kind_of(&out));
        }
        return "extend_bools";
    }
    let _ = w_extp;
    // extend with positions: any order, inside or past the end (past the end grows the vector)
    let k = rng.usize_below(12);
    let span = n + if profile == 2 { 3000 } else { 300 };
    let v: Vec<usize> = (0..k).map(|_| rng.usize_below(span + 1)).collect();
    let out = guard(|| bvm.extend(v.iter().copied()));
    for &p in &v {
        if p >= m.len() {
            m.resize(p + 1, false);
        }
        m[p] = true;
    }
    rep.tick("op:extend_positions");
    if out.is_panic() {
        rep.viol("extend<usize>", format!("{:?}", v), "no panic".into(), format!("{:?}", out), crate::report::kind_of(&out));
    }
    "extend_positions"
}

pub fn run_history(rep: &mut Rep, h: &HistSpec, unchecked: bool, budget: usize, strict_end: bool) {
    let mut rng = Rng::new(h.seed);
    let mut m: Vec<bool> = Vec::new();
    let mut bvm = match rng.below(4) {
        0 => BitVectorMut::new(),
        1 => BitVectorMut::with_capacity(rng.usize_below(2000)),
        2 => {
            let k = rng.usize_below(if h.profile == 2 { 3000 } else { 200 });
            m.resize(k, false);
            BitVectorMut::with_zeros(k)
        }
        _ => BitVectorMut::default(),
    };
    // interpreters: one full observation at the end (plus the one on the immutable copy)
    let full_every = if crate::tiny() { h.n_ops.max(1) * 2 } else { (h.n_ops / 6).max(1) };
    for step in 0..h.n_ops {
        let op = apply_op(rep, &mut bvm, &mut m, &mut rng, h.profile);
        if rep.trace {
            rep.journal("history_step", &format!("{} {} n={}", step, op, m.len()));
        }
        if h.profile == 0 || step % 4 == 0 {
            observe_light(rep, &bvm, &m, &mut rng);
        }
        if (h.profile == 0 && m.len() <= 300 && step % 3 == 0 && !crate::tiny()) || step % full_every == full_every - 1 {
            observe_full_opt(rep, &bvm, &m, &mut rng, unchecked, budget, strict_end);
        }
    }
    observe_full_opt(rep, &bvm, &m, &mut rng, unchecked, budget, strict_end);
    rep.gate_max("max_len", m.len() as u64);
    if m.len() > 512 {
        rep.gate_add("histories_crossing_line_boundary", 1);
    }

    // ---- quiescent point: conversions, clones, collects, equality across histories
    let n = m.len();
    let ones: Vec<usize> = (0..n).filter(|&i| m[i]).collect();
    let c = bvm.clone();
    chk!(rep, "clone==", n, Exp::Is(true), c == bvm);
    let bv: BitVector = BitVector::from(c);
    observe_full_opt(rep, &bv, &m, &mut rng, unchecked, budget, strict_end);
    let back: BitVectorMut = bv.clone().into();
    chk!(rep, "roundtrip_mut->imm->mut ==", n, Exp::Is(true), back == bvm);
    observe_light(rep, &back, &m, &mut rng);
    // the history continues on the value that went through the immutable form (and on a clone and a
    // deserialized copy): they must keep behaving like the model
    {
        let mut copies: Vec<(&'static str, BitVectorMut, Vec<bool>)> = vec![("after imm round trip", back.clone(), m.clone()), ("clone", bvm.clone(), m.clone())];
        if let Ok(bytes) = bincode::serialize(&bvm) {
            if let Ok(d) = bincode::deserialize::<BitVectorMut>(&bytes) {
                copies.push(("deserialized", d, m.clone()));
            }
        }
        let extra = if crate::tiny() { 4 } else { 24 };
        for (what, mut b, mut mm) in copies {
            for _ in 0..extra {
                apply_op(rep, &mut b, &mut mm, &mut rng, h.profile);
            }
            if rep.trace {
                rep.journal("continued_history", what);
            }
            observe_light(rep, &b, &mm, &mut rng);
            if !crate::tiny() {
                observe_full_opt(rep, &b, &mm, &mut rng, unchecked, budget.min(300), strict_end);
            }
        }
    }
    // same bits by a different history: collect from bools
    let from_bools: BitVectorMut = m.iter().copied().collect();
    chk!(rep, "collect<bool> == history", n, Exp::Is(true), from_bools == bvm);
    let imm_from_bools: BitVector = m.iter().copied().collect();
    chk!(rep, "BitVector collect<bool> == From<mut>", n, Exp::Is(true), imm_from_bools == bv);
    // same bits by with_zeros + set
    let by_set = guard(|| {
        let mut x = BitVectorMut::with_zeros(n);
        for &p in &ones {
            x.set(p, true);
        }
        x
    });
    if let Some(x) = by_set.val() {
        chk!(rep, "with_zeros+set == history", n, Exp::Is(true), x == bvm);
    }
    // collect from positions (expressible only when the last bit is a one)
    if m.last() == Some(&true) {
        let from_pos: BitVectorMut = ones.iter().copied().collect();
        chk!(rep, "collect<usize> == history", n, Exp::Is(true), from_pos == bvm);
        observe_light(rep, &from_pos, &m, &mut rng);
        let imm_from_pos: BitVector = ones.iter().copied().collect();
        chk!(rep, "BitVector collect<usize> == From<mut>", n, Exp::Is(true), imm_from_pos == bv);
        let from_u32: BitVector = ones.iter().map(|&p| p as u32).collect();
        chk!(rep, "BitVector collect<u32> == From<mut>", n, Exp::Is(true), from_u32 == bv);
        let from_i64: BitVector = ones.iter().map(|&p| p as i64).collect();
        chk!(rep, "BitVector collect<i64> == From<mut>", n, Exp::Is(true), from_i64 == bv);
    }
    // a vector that differs in one bit must not compare equal
    if n > 0 {
        let i = rng.usize_below(n);
        let mut other = bvm.clone();
        other.set(i, !m[i]);
        chk!(rep, "one bit flipped !=", (n, i), Exp::Is(false), other == bvm);
        other.set(i, m[i]);
        chk!(rep, "flipped back ==", (n, i), Exp::Is(true), other == bvm);
    }
    let mut longer = bvm.clone();
    longer.push(false);
    chk!(rep, "one zero appended !=", n, Exp::Is(false), longer == bvm);
}

pub fn hist_specs(cfg: &Cfg) -> Vec<HistSpec> {
    let mut rng = Rng::derive(cfg.seed, "c08_histories", 0);
    let (count, max_ops) = match (cfg.scale, cfg.tier) {
        (Scale::Tiny, Tier::Quick) => (8, 16),
        (Scale::Tiny, Tier::Thorough) => (64, 60),
        (Scale::Mid, Tier::Quick) => (160, 400),
        (Scale::Mid, Tier::Thorough) => (600, 1200),
        (Scale::Full, Tier::Quick) => (480, 1200),
        (Scale::Full, Tier::Thorough) => (4000, 2000),
    };
    let mut v = Vec::new();
    for i in 0..count {
        let profile = (i % 4) as u8;
        let n_ops = match profile {
            0 => 20 + rng.usize_below(max_ops.min(120)),
            _ => 50.min(max_ops) + rng.usize_below(max_ops),
        };
        v.push(HistSpec { seed: rng.u64(), n_ops, profile });
    }
    v
}

pub fn hist_cases(cfg: &Cfg, unchecked: bool, strict_end: bool) -> Vec<Case> {
    let budget = match cfg.scale {
        Scale::Tiny => 24,
        Scale::Mid => 600,
        Scale::Full => 2500,
    };
    hist_specs(cfg)
        .into_iter()
        .map(|h| {
            let class = format!("history|profile{}|ops{}", h.profile, h.n_ops / 100 * 100);
            let desc = J::obj().set("seed", h.seed).set("n_ops", h.n_ops).set("profile", h.profile);
            let w = h.n_ops as u64 * if h.profile == 2 { 30 } else { 8 };
            Case::new("BitVectorMut", class, desc, w, move |rep: &mut Rep| run_history(rep, &h, unchecked, budget, strict_end))
        })
        .collect()
}

/// a history on a vector longer than 2^32 bits (positions, lengths and counts that do not fit 32 bits):
/// 2^32 + 2^27 + 333 zeros, ~1100 bits set by `set`, then pushes, `append_bits`, a positions-`extend`; oracle = the sorted
/// list of set positions. Only position-based observations (the per-bit iterators would take minutes).
fn run_giant_history(rep: &mut Rep, seed: u64) {
    let n0: usize = (1usize << 32) + (1 << 27) + 333;
    let mut rng = Rng::new(seed);
    let mut bvm = BitVectorMut::new();
    chk!(rep, "op:extend_with_zeros", n0, Exp::AnyVal, bvm.extend_with_zeros(n0));
    let mut occ: Vec<usize> = vec![0, 5, 63, 64, (1 << 31) - 1, 1 << 31, (1 << 32) - 65, (1 << 32) - 64, (1 << 32) - 2, (1 << 32) - 1, 1 << 32, (1 << 32) + 1, (1 << 32) + 63, (1 << 32) + 64, (1 << 32) + 511, (1 << 32) + 512, n0 - 1];
    let mut p = 1usize << 20;
    while p < n0 - 10 {
        occ.push(p + rng.usize_below(1 << 19));
        p += (1 << 22) + rng.usize_below(1 << 20);
    }
    occ.sort_unstable();
    occ.dedup();
    for &p in &occ {
        if chk!(rep, "op:set", p, Exp::AnyVal, bvm.set(p, true)).is_panic() {
            return;
        }
    }
    // grow past the end: single bits, a word, positions
    let mut n = n0;
    for b in [true, false, true] {
        bvm.push(b);
        if b {
            occ.push(n);
        }
        n += 1;
    }
    chk!(rep, "op:append_bits", (0b1011u64, 4), Exp::AnyVal, bvm.append_bits(0b1011, 4));
    occ.extend([n, n + 1, n + 3]);
    n += 4;
    let far = [n + 70, n + 71, n + 1000];
    chk!(rep, "op:extend(positions)", format!("{:?}", far), Exp::AnyVal, bvm.extend(far.iter().copied()));
    occ.extend(far);
    n = far[2] + 1;
    let is_one = |p: usize| occ.binary_search(&p).is_ok();
    let rank1 = |p: usize| occ.partition_point(|&o| o < p);
    macro_rules! observe {
        ($b:expr, $name:expr) => {{
            let b = $b;
            chk!(rep, "len", $name, Exp::Is(n), b.len());
            chk!(rep, "count_ones", $name, Exp::Is(occ.len()), b.count_ones());
            chk!(rep, "count_zeros", $name, Exp::Is(n - occ.len()), b.count_zeros());
            let mut probes: Vec<usize> = vec![0, 1, (1 << 32) - 3, (1 << 32) - 2, (1 << 32) - 1, 1 << 32, (1 << 32) + 1, (1 << 32) + 2, n0 - 1, n0, n - 1];
            probes.extend(occ.iter().step_by(37).copied());
            for _ in 0..200 {
                probes.push(rng.usize_below(n));
            }
            for &p in &probes {
                chk!(rep, "get", ($name, p), Exp::Is(Some(is_one(p))), b.get(p));
            }
            for p in [n, n + 1, 1usize << 33, usize::MAX] {
                chk!(rep, "get", ($name, p), Exp::Is(None), b.get(p));
            }
            // multi-bit and whole-word reads across the 2^32 boundary and near the far end
            for (st, len) in [((1usize << 32) - 3, 7usize), ((1 << 32) - 64, 64), ((1 << 32) - 1, 64), (1 << 32, 64), ((1 << 32) + 1, 3), (n0 - 30, 45), (n - 70, 64)] {
                let exp: u64 = (0..len).map(|j| (is_one(st + j) as u64) << j).sum();
                chk!(rep, "get_bits", ($name, st, len), Exp::Is(Some(exp)), b.get_bits(st, len));
            }
            for w in [0usize, (1 << 26) - 1, 1 << 26, (1 << 26) + 1, (n - 1) / 64] {
                let exp: u64 = (0..64).map(|j| ((w * 64 + j < n && is_one(w * 64 + j)) as u64) << j).sum();
                chk!(rep, "get_word", ($name, w), Exp::Is(exp), b.get_word(w));
            }
            // position iterators: all ones from the start, from positions around 2^32; zeros: a prefix from such positions
            chk!(rep, "ones", $name, Exp::Is(true), b.ones().eq(occ.iter().copied()));
            for p in [(1usize << 32) - 70, (1 << 32) - 2, (1 << 32) - 1, 1 << 32, (1 << 32) + 1, (1 << 32) + 65, n0 - 1, n - 1, n] {
                let k = rank1(p);
                chk!(rep, "ones_with_pos", ($name, p), Exp::Is(true), b.ones_with_pos(p).eq(occ[k..].iter().copied()));
                let ez: Vec<usize> = (p..n).filter(|&q| !is_one(q)).take(40).collect();
                chk!(rep, "zeros_with_pos", ($name, p), Exp::Is(ez.clone()), b.zeros_with_pos(p).take(40).collect::<Vec<usize>>());
            }
            chk!(rep, "zeros", $name, Exp::Is((0..200usize).filter(|&q| !is_one(q)).take(100).collect::<Vec<usize>>()), b.zeros().take(100).collect::<Vec<usize>>());
        }};
    }
    observe!(&bvm, "BitVectorMut");
    let bv = BitVector::from(bvm);
    observe!(&bv, "BitVector::from(BitVectorMut)");
    drop(bv);
    // collecting positions beyond 2^32 (a 512 MiB vector from three numbers)
    let pos = [3usize, (1 << 32) + 7, (1 << 32) + 64];
    let v: BitVector = pos.iter().copied().collect();
    chk!(rep, "len", "collect(positions)", Exp::Is(pos[2] + 1), v.len());
    chk!(rep, "ones", "collect(positions)", Exp::Is(pos.to_vec()), v.ones().collect::<Vec<usize>>());
    chk!(rep, "ones_with_pos", ("collect(positions)", 1usize << 32), Exp::Is(pos[1..].to_vec()), v.ones_with_pos(1 << 32).collect::<Vec<usize>>());
    rep.gate_max("giant_n", n as u64);
    rep.nontrivial();
}

pub fn cases_c08(cfg: &Cfg) -> Vec<Case> {
    let mut out = hist_cases(cfg, false, true);
    // one history beyond 2^32 bits in the optimised and in the debug-assertion lane (0.6 GiB; not under the sanitizers / interpreters)
    if (cfg.lane == "rel" || cfg.lane == "dbg") && cfg.rep == 0 {
        let seed = Rng::derive(cfg.seed, "c08_giant", 0).u64();
        let desc = J::obj().set("history", "extend_with_zeros(2^32+2^27+333), ~1100 x set, push x3, append_bits, extend(positions); then BitVector::from; collect(positions > 2^32)").set("seed", seed);
        out.push(Case::new("BitVectorMut", "history|giant (> 2^32 bits)", desc, 1u64 << 33, move |rep: &mut Rep| run_giant_history(rep, seed)));
    }
    out
}
