//! C13 (quad vector and its builder) and C17 (word-level primitives).

use crate::chk;
use crate::json::J;
use crate::prng::Rng;
use crate::report::{Cfg, Exp, Rep, Scale, Tier};
use crate::Case;
use qwt::utils::{msb, popcnt_wide, select_in_word, select_in_word_u128, stable_partition_of_2, stable_partition_of_4, text_remap};
use qwt::{AccessQuad, QVector, QVectorBuilder};

// ---------------------------------------------------------------------------------------------
// C13
// ---------------------------------------------------------------------------------------------

fn check_qvector(rep: &mut Rep, what: &'static str, qv: &QVector, want: &[u8], full: bool) {
    let n = want.len();
    chk!(rep, "len", what, Exp::Is(n), qv.len());
    chk!(rep, "is_empty", what, Exp::Is(n == 0), qv.is_empty());
    let idx: Vec<usize> = if full || n <= 600 { (0..n).collect() } else { (0..n).step_by(n / 500 + 1).chain([n - 1, n - 2, n / 2]).collect() };
    for i in idx {
        chk!(rep, "get", (what, i), Exp::Is(Some(want[i])), qv.get(i));
    }
    for i in [n, n + 1, n + 127, n + 128, n + 255, n + 256, usize::MAX, 1 << 63] {
        chk!(rep, "get", (what, i), Exp::Is(None), qv.get(i));
    }
    chk!(rep, "iter", what, Exp::Is(true), qv.iter().collect::<Vec<u8>>() == want);
    chk!(rep, "(&qv).into_iter", what, Exp::Is(true), {
        let mut v = Vec::new();
        for x in qv {
            v.push(x);
        }
        v == want
    });
    chk!(rep, "into_iter", what, Exp::Is(true), qv.clone().into_iter().collect::<Vec<u8>>() == want);
    rep.tick_n("iter_items", 3 * n as u64);
    // the same symbols through the adaptors that rely on nth(): skip, step_by, and a jump taken after a
    // whole number of 128/256-symbol lines has been consumed
    for k in [1usize, 3, 5, 127, 128, 129, 255, 256, 257] {
        let w: Vec<u8> = want.iter().copied().step_by(k).collect();
        chk!(rep, "iter.step_by", (what, k), Exp::Is(true), qv.iter().step_by(k).collect::<Vec<u8>>() == w);
        let w: Vec<u8> = want.iter().copied().skip(k).collect();
        chk!(rep, "into_iter.skip", (what, k), Exp::Is(true), qv.clone().into_iter().skip(k).collect::<Vec<u8>>() == w);
        for pre in [128usize, 256, 512] {
            if pre <= n {
                let mut it = qv.iter();
                for _ in 0..pre {
                    it.next();
                }
                let e = want.get(pre + k).copied();
                chk!(rep, "next*pre then nth", (what, pre, k), Exp::Is(e), it.nth(k));
                let e2 = want.get(pre + k + 1).copied();
                chk!(rep, "next after nth", (what, pre, k), Exp::Is(e2), it.next());
            }
        }
    }
    // jumps so long that `consumed + k` does not fit a usize: nothing is left, and nothing comes back
    for pre in [0usize, 1, 5, 128, 300] {
        if pre <= n {
            for k in [usize::MAX, usize::MAX - pre, (usize::MAX - pre).wrapping_add(1), usize::MAX / 2 + 1] {
                if k < n.saturating_sub(pre) {
                    continue;
                }
                let mut it = qv.iter();
                for _ in 0..pre {
                    it.next();
                }
                chk!(rep, "next*pre then nth(huge)", (what, pre, k), Exp::Is(None), it.nth(k));
                chk!(rep, "next after nth(huge)", (what, pre, k), Exp::Is(None), it.next());
                let mut it = qv.clone().into_iter();
                for _ in 0..pre {
                    it.next();
                }
                chk!(rep, "into_iter: next*pre then nth(huge)", (what, pre, k), Exp::Is(None), it.nth(k));
                chk!(rep, "into_iter: next after nth(huge)", (what, pre, k), Exp::Is(None), it.next());
            }
        }
    }
    chk!(rep, "iter.skip(usize::MAX)", what, Exp::Is(None), qv.iter().skip(usize::MAX).next());
    chk!(rep, "iter.step_by(usize::MAX)", what, Exp::Is(want.first().copied().into_iter().collect::<Vec<u8>>()), qv.iter().step_by(usize::MAX).collect::<Vec<u8>>());
    chk!(rep, "iter.count", what, Exp::Is(n), qv.iter().count());
    chk!(rep, "iter.last", what, Exp::Is(want.last().copied()), qv.iter().last());
    if n >= 2 {
        rep.nontrivial();
    }
}

macro_rules! typed_collect {
    ($rep:expr, $rng:expr, $n:expr, $full:expr; $($t:ty),*) => { $(
        {
            // arbitrary values of the type, including negative ones, values above 3, MIN and MAX
            let vals: Vec<$t> = (0..$n).map(|i| match $rng.below(8) {
                0 => <$t>::MAX,
                1 => <$t>::MIN,
                2 => (i % 4) as $t,
                3 => ($rng.u64() % 7) as $t,
                _ => $rng.u128() as $t,
            }).collect();
            let want: Vec<u8> = vals.iter().map(|&v| ((v as i128 as u128) & 3) as u8).collect();
            let what = concat!("collect<", stringify!($t), ">");
            let got = $crate::outcome::guard(|| vals.iter().copied().collect::<QVector>());
            $rep.tick("build");
            match got {
                $crate::outcome::Out::Val(qv) => check_qvector($rep, what, &qv, &want, $full),
                $crate::outcome::Out::Panic(p) => $rep.viol("collect", what.to_string(), "no panic".into(), format!("{:?}", p), "panic".into()),
            }
            // the same through a builder: collect into the builder, then extend with a second batch
            let what2 = concat!("builder.collect+extend<", stringify!($t), ">");
            let got = $crate::outcome::guard(|| {
                let mut b: QVectorBuilder = vals.iter().copied().collect();
                b.extend(vals.iter().rev().copied());
                b.build()
            });
            $rep.tick("build");
            let mut want2 = want.clone();
            want2.extend(want.iter().rev().copied());
            match got {
                $crate::outcome::Out::Val(qv) => check_qvector($rep, what2, &qv, &want2, false),
                $crate::outcome::Out::Panic(p) => $rep.viol("builder", what2.to_string(), "no panic".into(), format!("{:?}", p), "panic".into()),
            }
        }
    )* }
}

fn run_builder_history(rep: &mut Rep, seed: u64, n_target: usize, full: bool) {
    let mut rng = Rng::new(seed);
    // history over {new | with_capacity | default, push(any u8), extend(...)}
    let mut b = match rng.below(3) {
        0 => QVectorBuilder::new(),
        1 => QVectorBuilder::with_capacity(rng.usize_below(2 * n_target + 2)),
        _ => QVectorBuilder::default(),
    };
    let mut want: Vec<u8> = Vec::new();
    while want.len() < n_target {
        match rng.below(5) {
            0 | 1 => {
                let v = rng.u64() as u8; // any byte: only the two low bits are kept
                b.push(v);
                want.push(v & 3);
            }
            2 => {
                let k = rng.usize_below(40);
                let vs: Vec<i32> = (0..k).map(|_| rng.u64() as i32).collect();
                b.extend(vs.iter().copied());
                want.extend(vs.iter().map(|&v| (v as u32 & 3) as u8));
            }
            3 => {
                let k = rng.usize_below(300);
                let vs: Vec<u8> = (0..k).map(|_| rng.u64() as u8).collect();
                b.extend(vs.iter().copied());
                want.extend(vs.iter().map(|&v| v & 3));
            }
            _ => {
                // push exactly up to the next line boundary (128/256 symbols)
                let to = ((want.len() / 128) + 1) * 128;
                while want.len() < to {
                    let v = rng.u64() as u8;
                    b.push(v);
                    want.push(v & 3);
                }
            }
        }
        rep.tick("op:builder");
    }
    let b2 = b.clone();
    let qv = b.build();
    check_qvector(rep, "builder history", &qv, &want, full);
    let qv2 = b2.build();
    chk!(rep, "clone of builder builds ==", want.len(), Exp::Is(true), qv2 == qv);
    let direct: QVector = want.iter().copied().collect();
    chk!(rep, "collect == builder history", want.len(), Exp::Is(true), direct == qv);
    rep.gate_max("max_len", want.len() as u64);
}

fn run_typed(rep: &mut Rep, seed: u64, n: usize, full: bool) {
    let mut rng = Rng::new(seed);
    typed_collect!(rep, rng, n, full; i8, u8, i16, u16, i32, u32, i64, u64, isize, usize, i128, u128);
    rep.gate_add("integer_types_collected", 12);
}

pub fn cases_c13(cfg: &Cfg) -> Vec<Case> {
    let mut rng = Rng::derive(cfg.seed, "c13", 0);
    let mut out = Vec::new();
    let lens: Vec<usize> = match cfg.scale {
        Scale::Tiny => vec![0, 1, 129, 257],
        Scale::Mid => vec![0, 1, 2, 127, 128, 129, 255, 256, 257, 1000],
        Scale::Full => vec![0, 1, 2, 3, 127, 128, 129, 255, 256, 257, 383, 384, 385, 511, 512, 513, 1000, 4096, 4097, 20_000],
    };
    let reps = match (cfg.scale, cfg.tier) {
        (Scale::Tiny, _) => 1,
        (_, Tier::Quick) => 3,
        _ => 20,
    };
    for &n in &lens {
        for _ in 0..reps {
            let seed = rng.u64();
            let class = format!("builder|n{}", crate::gen::len_bucket(n));
            let desc = J::obj().set("seed", seed).set("n_target", n);
            let full = cfg.scale == Scale::Full;
            out.push(Case::new("QVectorBuilder", class, desc, n as u64 + 20, move |rep: &mut Rep| run_builder_history(rep, seed, n, full)));
            let seed2 = rng.u64();
            let class = format!("typed|n{}", crate::gen::len_bucket(n));
            let desc = J::obj().set("seed", seed2).set("n", n);
            out.push(Case::new("QVector::from_iter<12 integer types>", class, desc, n as u64 * 12 + 20, move |rep: &mut Rep| run_typed(rep, seed2, n, full)));
        }
    }
    out
}

// ---------------------------------------------------------------------------------------------
// C17
// ---------------------------------------------------------------------------------------------

fn naive_select64(w: u64, k: u64) -> u32 {
    let mut c = 0u64;
    for b in 0..64 {
        if (w >> b) & 1 == 1 {
            if c == k {
                return b;
            }
            c += 1;
        }
    }
    64
}
fn naive_select128(w: u128, k: u64) -> u32 {
    let mut c = 0u64;
    for b in 0..128 {
        if (w >> b) & 1 == 1 {
            if c == k {
                return b;
            }
            c += 1;
        }
    }
    128
}

fn check_word(rep: &mut Rep, w: u64) {
    for k in 0..64u64 {
        let e = naive_select64(w, k);
        chk!(rep, "select_in_word", (w, k), Exp::Is(e), select_in_word(w, k));
    }
}
fn check_word128(rep: &mut Rep, w: u128, all_k: bool, rng: &mut Rng) {
    if all_k {
        for k in 0..128u64 {
            let e = naive_select128(w, k);
            chk!(rep, "select_in_word_u128", (w, k), Exp::Is(e), select_in_word_u128(w, k));
        }
    } else {
        let pc = w.count_ones() as u64;
        for k in [0, 1, pc.saturating_sub(1), pc, pc + 1, 63, 64, 65, 127, rng.below(128), rng.below(128)] {
            if k < 128 {
                let e = naive_select128(w, k);
                chk!(rep, "select_in_word_u128", (w, k), Exp::Is(e), select_in_word_u128(w, k));
            }
        }
    }
}

/// every byte value at every byte position, other bytes zero / all-ones / random: covers all 2048
/// entries of the in-byte lookup table and the carry cases of the broadword stage
fn run_select_table(rep: &mut Rep, byte_pos: usize, seed: u64) {
    let mut rng = Rng::new(seed);
    for b in 0..256u64 {
        let sh = 8 * byte_pos;
        let hole = !(0xFFu64 << sh);
        for bg in [0u64, u64::MAX, rng.u64(), rng.u64() & rng.u64(), rng.u64() | rng.u64()] {
            let w = (bg & hole) | (b << sh);
            check_word(rep, w);
        }
    }
    rep.gate_add("byte_table_positions_covered", 1);
    rep.nontrivial();
}

fn run_select_16bit(rep: &mut Rep, pos: usize) {
    for p in 0..65536u64 {
        let w = p << (16 * pos);
        // all k up to popcount + 1 (beyond that the answer is 64 by the same code path)
        let pc = w.count_ones() as u64;
        for k in 0..=(pc + 1).min(63) {
            let e = naive_select64(w, k);
            chk!(rep, "select_in_word", (w, k), Exp::Is(e), select_in_word(w, k));
        }
    }
    rep.nontrivial();
}

fn run_select_random(rep: &mut Rep, seed: u64, count: usize) {
    let mut rng = Rng::new(seed);
    for i in 0..count {
        let w = match i % 6 {
            0 => rng.u64(),
            1 => rng.u64() & rng.u64() & rng.u64(),
            2 => rng.u64() | rng.u64() | rng.u64(),
            3 => 1u64 << rng.below(64),
            4 => !(1u64 << rng.below(64)),
            _ => rng.u64() << rng.below(64),
        };
        check_word(rep, w);
    }
    for w in [0u64, u64::MAX, 1, 1 << 63, 0x8000_0000_0000_0001, 0x5555_5555_5555_5555, 0xAAAA_AAAA_AAAA_AAAA, 0xFF, 0xFF00_0000_0000_0000] {
        check_word(rep, w);
    }
    rep.nontrivial();
}

fn run_select128(rep: &mut Rep, seed: u64, count: usize) {
    let mut rng = Rng::new(seed);
    for i in 0..count {
        let w = match i % 7 {
            0 => rng.u128(),
            1 => rng.u128() & rng.u128() & rng.u128(),
            2 => rng.u128() | rng.u128(),
            3 => 1u128 << rng.below(128),
            4 => (rng.u64() as u128) << 64,
            5 => rng.u64() as u128,
            _ => !(1u128 << rng.below(128)),
        };
        check_word128(rep, w, i % 4 == 0, &mut rng);
    }
    for w in [0u128, u128::MAX, 1, 1 << 127, 1 << 64, (1 << 64) - 1, u64::MAX as u128 + 1] {
        check_word128(rep, w, true, &mut rng);
    }
    rep.nontrivial();
}

macro_rules! popcnt_n {
    ($rep:expr, $data:expr; $($n:literal),*) => { $(
        {
            let e: usize = $data.iter().take($n).map(|w| w.count_ones() as usize).sum();
            chk!($rep, "popcnt_wide", ($n, $data.len()), Exp::Is(e), popcnt_wide::<$n>(&$data));
        }
    )* }
}

macro_rules! msb_type {
    ($rep:expr, $rng:expr; $($t:ty),*) => { $(
        {
            chk!($rep, "msb", (stringify!($t), 0), Exp::Is(0u32), msb(0 as $t));
            for b in 0..<$t>::BITS {
                if (1u128 << b) > <$t>::MAX as u128 { break; }
                let one = (1u128 << b) as $t;
                chk!($rep, "msb", (stringify!($t), one), Exp::Is(b), msb(one));
                // all lower bits set too, and one random lower pattern
                let full = ((1u128 << b) | ((1u128 << b) - 1)) as $t;
                chk!($rep, "msb", (stringify!($t), full), Exp::Is(b), msb(full));
                let r = ((1u128 << b) | ($rng.u128() & ((1u128 << b) - 1))) as $t;
                chk!($rep, "msb", (stringify!($t), r), Exp::Is(b), msb(r));
            }
            chk!($rep, "msb", (stringify!($t), "MAX"), Exp::Is((<$t>::MAX as u128).ilog2()), msb(<$t>::MAX));
        }
    )* }
}

macro_rules! partition_type {
    ($rep:expr, $rng:expr, $len:expr; $($t:ty),*) => { $(
        {
            let bits = <$t>::BITS as usize;
            for shift in 0..bits {
                let len = if shift % 7 == 0 { $len } else { ($len / 8).max(3) };
                let data: Vec<$t> = (0..len).map(|i| match $rng.below(4) {
                    0 => $rng.u128() as $t,
                    1 => (($rng.below(4) as u128) << shift) as $t,
                    2 => ((i as u128) << shift.saturating_sub(1)) as $t,
                    _ => (($rng.u128() as $t) >> $rng.below(bits as u64) as u32),
                }).collect();
                // 4-way: grouped by ((a >> shift) & 3), stable
                let mut want = data.clone();
                want.sort_by_key(|a| ((*a >> shift) & 3) as u8); // sort_by_key is stable
                let mut got = data.clone();
                chk!($rep, "stable_partition_of_4", (stringify!($t), shift, len), Exp::Is(true), {
                    stable_partition_of_4(&mut got, shift);
                    got == want
                });
                let mut want = data.clone();
                want.sort_by_key(|a| ((*a >> shift) & 1) as u8);
                let mut got = data.clone();
                chk!($rep, "stable_partition_of_2", (stringify!($t), shift, len), Exp::Is(true), {
                    stable_partition_of_2(&mut got, shift);
                    got == want
                });
            }
            // degenerate slices
            for len in [0usize, 1, 2] {
                let data: Vec<$t> = (0..len).map(|_| $rng.u128() as $t).collect();
                let mut got = data.clone();
                let mut want = data.clone();
                want.sort_by_key(|a| (*a & 3) as u8);
                chk!($rep, "stable_partition_of_4", (stringify!($t), 0, len), Exp::Is(true), { stable_partition_of_4(&mut got, 0); got == want });
            }
        }
    )* }
}

fn run_misc(rep: &mut Rep, seed: u64, len: usize) {
    let mut rng = Rng::new(seed);
    // popcnt_wide
    for l in [0usize, 1, 3, 7, 8, 9, 16] {
        let data: Vec<u64> = (0..l).map(|_| rng.u64()).collect();
        popcnt_n!(rep, data; 1, 2, 3, 4, 5, 6, 7, 8);
    }
    // wide N: any accumulation in narrow lanes (bytes: 8 bits per word, 16-bit lanes: 16 bits per word) would wrap after
    // 32 / 4096 / 8192 words; patterns fill one lane of every word, all lanes, or random bits
    if !crate::tiny() || seed % 4 == 0 {
        let big = if crate::tiny() { 300usize } else { 140_000 };
        let mut pats: Vec<(String, Vec<u64>)> = Vec::new();
        pats.push(("random".into(), (0..big).map(|_| rng.u64()).collect()));
        pats.push(("all ones".into(), vec![u64::MAX; big]));
        pats.push(("alternating".into(), (0..big).map(|i| if i % 2 == 0 { 0xAAAA_AAAA_AAAA_AAAA } else { u64::MAX }).collect()));
        for lane in 0..4 {
            pats.push((format!("16-bit lane {} of every word set", lane), vec![0xFFFFu64 << (16 * lane); big]));
        }
        for lane in [0usize, 3, 7] {
            pats.push((format!("byte lane {} of every word set", lane), vec![0xFFu64 << (8 * lane); big]));
        }
        pats.push(("32-bit lane 1 of every word set".into(), vec![0xFFFF_FFFFu64 << 32; big]));
        pats.push(("ones only after the first 4096 words".into(), (0..big).map(|i| if i >= 4096 { u64::MAX } else { 0 }).collect()));
        for (what, data) in pats.iter() {
            macro_rules! wide {
                ($($n:literal),*) => { $(
                    if !crate::tiny() || $n <= 300 {
                        for l in [$n - 1, $n, $n + 1, 2 * $n + 3usize] {
                            let d = &data[..l.min(data.len())];
                            let e: usize = d.iter().take($n).map(|w| w.count_ones() as usize).sum();
                            chk!(rep, "popcnt_wide", ($n, d.len(), what), Exp::Is(e), popcnt_wide::<$n>(d));
                        }
                    }
                )* }
            }
            wide!(9, 15, 16, 17, 31, 32, 33, 63, 64, 65, 127, 128, 255, 256, 257, 1023, 1024, 2048, 4095, 4096, 4097, 8191, 8192, 8193, 12288, 65535, 65536, 65537);
        }
    }
    msb_type!(rep, rng; u8, u16, u32, u64, usize, u128, i8, i16, i32, i64, i128);
    partition_type!(rep, rng, len; u8, u16, u32, u64, usize, u128);
    // text_remap
    for _ in 0..40 {
        let l = rng.usize_below(len.min(3000) + 1);
        let k = 1 + rng.usize_below(256);
        let pool: Vec<u8> = (0..k).map(|_| rng.u64() as u8).collect();
        let text: Vec<u8> = (0..l).map(|_| *rng.pick(&pool)).collect();
        let mut distinct: Vec<u8> = text.clone();
        distinct.sort_unstable();
        distinct.dedup();
        let want: Vec<u8> = text.iter().map(|c| distinct.binary_search(c).unwrap() as u8).collect();
        let mut got = text.clone();
        chk!(rep, "text_remap", (l, distinct.len()), Exp::Is((distinct.len(), true)), {
            let d = text_remap(&mut got);
            (d, got == want)
        });
    }
    // all 256 byte values present: d = 256, identity
    let mut all: Vec<u8> = (0..=255u8).rev().collect();
    let want: Vec<u8> = all.clone();
    chk!(rep, "text_remap", "all 256 values", Exp::Is((256usize, true)), {
        let d = text_remap(&mut all);
        (d, all == want)
    });
    rep.nontrivial();
}

pub fn cases_c17(cfg: &Cfg) -> Vec<Case> {
    let mut rng = Rng::derive(cfg.seed, "c17", 0);
    let mut out = Vec::new();
    let (n_rand_cases, per_case, n128, plen) = match (cfg.scale, cfg.tier) {
        (Scale::Tiny, Tier::Quick) => (1, 6, 6, 12),
        (Scale::Tiny, Tier::Thorough) => (4, 20, 20, 24),
        (Scale::Mid, Tier::Quick) => (16, 2_000, 2_000, 200),
        (Scale::Mid, Tier::Thorough) => (64, 20_000, 20_000, 600),
        (Scale::Full, Tier::Quick) => (32, 6_000, 6_000, 1500),
        (Scale::Full, Tier::Thorough) => (256, 60_000, 60_000, 4000),
    };
    if cfg.scale != Scale::Tiny {
        for byte_pos in 0..8 {
            let seed = rng.u64();
            out.push(Case::new("select_in_word", format!("table|byte{}", byte_pos), J::obj().set("byte_pos", byte_pos).set("seed", seed), 90_000, move |rep: &mut Rep| {
                run_select_table(rep, byte_pos, seed)
            }));
        }
    }
    if cfg.scale == Scale::Full {
        for pos in 0..4 {
            out.push(Case::new("select_in_word", format!("all16bit|pos{}", pos), J::obj().set("pos16", pos), 600_000, move |rep: &mut Rep| run_select_16bit(rep, pos)));
        }
    }
    for i in 0..n_rand_cases {
        let seed = rng.u64();
        out.push(Case::new("select_in_word", format!("random|{}", i % 8), J::obj().set("seed", seed).set("words", per_case), per_case as u64 * 64, move |rep: &mut Rep| {
            run_select_random(rep, seed, per_case)
        }));
        let seed = rng.u64();
        out.push(Case::new("select_in_word_u128", format!("random128|{}", i % 8), J::obj().set("seed", seed).set("words", n128), n128 as u64 * 40, move |rep: &mut Rep| {
            run_select128(rep, seed, n128)
        }));
    }
    let n_misc = if cfg.scale == Scale::Tiny { 1 } else if cfg.tier == Tier::Quick { 8 } else { 48 };
    for i in 0..n_misc {
        let seed = rng.u64();
        out.push(Case::new("popcnt_wide/msb/stable_partition/text_remap", format!("misc|{}", i % 8), J::obj().set("seed", seed).set("slice_len", plen), plen as u64 * 700, move |rep: &mut Rep| {
            run_misc(rep, seed, plen)
        }));
    }
    out
}
