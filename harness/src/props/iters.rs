//! C12: iterators yield exactly the indexed sequence, from both ends, with exact length —
//! history monitor over {next, next_back, len} against a window [front, back) on the model.

use crate::adapters::*;
use crate::gen::*;
use crate::json::J;
use crate::outcome::guard;
use crate::prng::Rng;
use crate::report::{kind_of, Cfg, Exp, Rep, Scale, Tier};
use crate::{chk, with_tree, Case};
use qwt::{BitVector, BitVectorMut, DArray, QVector};
use std::fmt::Debug;

#[derive(Clone, Copy, Debug)]
pub struct HistCfg {
    pub steps_after_exhaustion: usize,
    /// 0 = mostly front, 1 = mostly back, 2 = alternate, 3 = random
    pub style: u8,
    pub seed: u64,
}

/// double-ended + exact size
pub fn drive_de<T: PartialEq + Debug + Copy, I: DoubleEndedIterator<Item = T> + ExactSizeIterator>(
    rep: &mut Rep,
    what: &'static str,
    mut it: I,
    expect: &[T],
    h: HistCfg,
) {
    let mut rng = Rng::new(h.seed);
    let mut front = 0usize;
    let mut back = expect.len();
    let mut extra = h.steps_after_exhaustion;
    let mut step = 0usize;
    chk!(rep, "len", (what, "initial"), Exp::Is(back - front), it.len());
    loop {
        let exhausted = front >= back;
        if exhausted {
            if extra == 0 {
                break;
            }
            extra -= 1;
        }
        let r = match h.style {
            0 => rng.below(10) < 8,
            1 => rng.below(10) < 2,
            2 => step % 2 == 0,
            _ => rng.bool(),
        };
        step += 1;
        // every few steps: jump with nth / nth_back (these have their own implementations in some
        // iterators and are what skip() and step_by() are built on)
        if step % 5 == 4 && front < back {
            let remaining = back - front;
            let k = match rng.below(4) {
                0 => 0,
                1 => rng.usize_below(4),
                2 => rng.usize_below(40),
                // beyond the end only when little is left (otherwise every history would end early)
                _ => {
                    if remaining <= 48 {
                        // just past the end, or so far past it that `consumed + k` does not fit a usize
                        match rng.below(4) {
                            0 => usize::MAX,
                            1 => usize::MAX - front,
                            2 => usize::MAX - front - rng.usize_below(3),
                            _ => remaining + rng.usize_below(3),
                        }
                    } else {
                        rng.usize_below(300).min(remaining - 1)
                    }
                }
            };
            if rng.bool() {
                let exp = if k < remaining { Some(expect[front + k]) } else { None };
                chk!(rep, "nth", (what, step, front, back, k), Exp::Is(exp), it.nth(k));
                front = if k < remaining { front + k + 1 } else { back };
            } else {
                let exp = if k < remaining { Some(expect[back - 1 - k]) } else { None };
                chk!(rep, "nth_back", (what, step, front, back, k), Exp::Is(exp), it.nth_back(k));
                back = if k < remaining { back - k - 1 } else { front };
            }
            chk!(rep, "len", (what, step, front, back), Exp::Is(back - front), it.len());
            continue;
        }
        if r {
            let exp = if front < back { Some(expect[front]) } else { None };
            chk!(rep, "next", (what, step, front, back), Exp::Is(exp), it.next());
            if front < back {
                front += 1;
            }
        } else {
            let exp = if front < back { Some(expect[back - 1]) } else { None };
            chk!(rep, "next_back", (what, step, front, back), Exp::Is(exp), it.next_back());
            if front < back {
                back -= 1;
            }
        }
        if step % 3 == 0 || front >= back {
            chk!(rep, "len", (what, step, front, back), Exp::Is(back - front), it.len());
        }
    }
    if expect.len() >= 2 {
        rep.nontrivial();
    }
}

/// forward only; `exact` = also has len()
pub fn drive_fwd<T: PartialEq + Debug + Copy, I: Iterator<Item = T>>(
    rep: &mut Rep,
    what: &'static str,
    mut it: I,
    len_fn: Option<&dyn Fn(&I) -> usize>,
    expect: &[T],
    h: HistCfg,
) {
    let mut front = 0usize;
    let n = expect.len();
    let mut extra = h.steps_after_exhaustion;
    if let Some(f) = len_fn {
        chk!(rep, "len", (what, "initial"), Exp::Is(n), f(&it));
    }
    loop {
        if front >= n {
            if extra == 0 {
                break;
            }
            extra -= 1;
        }
        // jumps with nth: after 0, 100 and every multiple of 256 yielded elements, and now and then
        if front < n && (front == 100 || (front > 0 && front % 256 == 0) || front % 37 == 36) {
            let k = match front % 4 {
                0 => 3,
                1 => 0,
                2 => 70,
                _ => 255,
            };
            // near the end: jumps so long that `consumed + k` does not fit a usize
            let k = if n - front <= 40 { [usize::MAX, usize::MAX - front, usize::MAX - front + 1, usize::MAX / 2 + 1][front % 4] } else { k };
            let exp = if k < n - front { Some(expect[front + k]) } else { None };
            chk!(rep, "nth", (what, front, k), Exp::Is(exp), it.nth(k));
            front = if k < n - front { front + k + 1 } else { n };
            continue;
        }
        let exp = if front < n { Some(expect[front]) } else { None };
        chk!(rep, "next", (what, front), Exp::Is(exp), it.next());
        if front < n {
            front += 1;
        }
        if let Some(f) = len_fn {
            if front % 3 == 0 || front >= n {
                chk!(rep, "len", (what, front), Exp::Is(n - front), f(&it));
            }
        }
    }
    if n >= 2 {
        rep.nontrivial();
    }
}

fn run_tree_iters<Tr: TreeApi>(rep: &mut Rep, spec: &SeqSpec, seed: u64) {
    let raw = gen_seq(spec, <Tr::Item as Sym>::BITS);
    let data: Vec<Tr::Item> = raw.iter().map(|&x| <Tr::Item as Sym>::from_u128(x)).collect();
    let Some(t) = crate::props::trees::guarded_build::<Tr>(rep, &data, (seed % 3) as u8) else { return };
    let mut rng = Rng::new(seed);
    for style in 0..4u8 {
        let h = HistCfg { steps_after_exhaustion: 4, style, seed: rng.u64() };
        drive_de(rep, "iter()", t.iter_box(), &data, h);
        let h = HistCfg { steps_after_exhaustion: 3, style: (style + 1) % 4, seed: rng.u64() };
        drive_de(rep, "(&t).into_iter()", t.ref_into_iter_box(), &data, h);
        let h = HistCfg { steps_after_exhaustion: 5, style: (style + 2) % 4, seed: rng.u64() };
        drive_de(rep, "into_iter()", t.clone().into_iter_box(), &data, h);
    }
    // plain adaptors: collect and rev().collect()
    chk!(rep, "collect", "iter", Exp::Is(true), t.iter_box().collect::<Vec<_>>() == data);
    chk!(rep, "rev.collect", "iter", Exp::Is(true), {
        let mut r: Vec<_> = t.iter_box().rev().collect();
        r.reverse();
        r == data
    });
    chk!(rep, "for-loop count", "(&t)", Exp::Is(data.len()), {
        let mut c = 0usize;
        for _ in t.ref_into_iter_box() {
            c += 1;
        }
        c
    });
    for k in [1usize, 2, 7, 256] {
        let want: Vec<Tr::Item> = data.iter().copied().step_by(k).collect();
        chk!(rep, "step_by", ("iter", k), Exp::Is(true), t.iter_box().step_by(k).collect::<Vec<_>>() == want);
        let want: Vec<Tr::Item> = data.iter().rev().copied().skip(k).collect();
        chk!(rep, "rev.skip", ("iter", k), Exp::Is(true), t.iter_box().rev().skip(k).collect::<Vec<_>>() == want);
    }
    chk!(rep, "count", "iter", Exp::Is(data.len()), t.iter_box().count());
    chk!(rep, "last", "iter", Exp::Is(data.last().copied()), t.iter_box().last());
    rep.gate_add("tree_iterators_driven", 12);
}

fn run_bit_iters(rep: &mut Rep, spec: &BitSpec) {
    let bits = gen_bits(spec);
    let ones: Vec<usize> = (0..bits.len()).filter(|&i| bits[i]).collect();
    let zeros: Vec<usize> = (0..bits.len()).filter(|&i| !bits[i]).collect();
    let bv: BitVector = bits.iter().copied().collect();
    let bvm: BitVectorMut = bits.iter().copied().collect();
    let h = HistCfg { steps_after_exhaustion: 5, style: 0, seed: spec.seed };
    let lf_iter: &dyn Fn(&qwt::bitvector::BitVectorIter) -> usize = &|i| i.len();
    drive_fwd(rep, "BitVector::iter", bv.iter(), Some(lf_iter), &bits, h);
    drive_fwd(rep, "(&BitVector).into_iter", (&bv).into_iter(), Some(lf_iter), &bits, h);
    drive_fwd(rep, "BitVectorMut::iter", bvm.iter(), Some(lf_iter), &bits, h);
    let lf_into: &dyn Fn(&qwt::bitvector::BitVectorIntoIter) -> usize = &|i| i.len();
    drive_fwd(rep, "BitVector::into_iter", bv.clone().into_iter(), Some(lf_into), &bits, h);
    drive_fwd(rep, "BitVectorMut::into_iter", bvm.clone().into_iter(), Some(lf_into), &bits, h);
    drive_fwd(rep, "BitVector::ones", bv.ones(), None, &ones, h);
    drive_fwd(rep, "BitVector::zeros", bv.zeros(), None, &zeros, h);
    drive_fwd(rep, "BitVectorMut::ones", bvm.ones(), None, &ones, h);
    drive_fwd(rep, "BitVectorMut::zeros", bvm.zeros(), None, &zeros, h);
    let da: DArray<true> = DArray::new(bv.clone());
    drive_fwd(rep, "DArray::iter", da.iter(), Some(lf_iter), &bits, h);
    drive_fwd(rep, "DArray::ones", da.ones(), None, &ones, h);
    drive_fwd(rep, "DArray::zeros", da.zeros(), None, &zeros, h);
    for k in [1usize, 3, 64, 65, 511, 512] {
        let want: Vec<bool> = bits.iter().copied().step_by(k).collect();
        chk!(rep, "step_by", ("BitVector::iter", k), Exp::Is(true), bv.iter().step_by(k).collect::<Vec<bool>>() == want);
        chk!(rep, "step_by", ("BitVector::into_iter", k), Exp::Is(true), bv.clone().into_iter().step_by(k).collect::<Vec<bool>>() == want);
        let want: Vec<usize> = ones.iter().copied().skip(k).collect();
        chk!(rep, "skip", ("BitVector::ones", k), Exp::Is(true), bv.ones().skip(k).collect::<Vec<usize>>() == want);
    }
    chk!(rep, "count", "BitVector::iter", Exp::Is(bits.len()), bv.iter().count());
    chk!(rep, "count", "BitVector::ones", Exp::Is(ones.len()), bv.ones().count());
    rep.gate_add("bit_iterators_driven", 12);
}

fn run_quad_iters(rep: &mut Rep, spec: &QuadSpec) {
    let data = gen_quads(spec);
    let qv: QVector = data.iter().copied().collect();
    let h = HistCfg { steps_after_exhaustion: 5, style: 0, seed: spec.seed };
    drive_fwd(rep, "QVector::iter", qv.iter(), None, &data, h);
    drive_fwd(rep, "(&QVector).into_iter", (&qv).into_iter(), None, &data, h);
    drive_fwd(rep, "QVector::into_iter", qv.clone().into_iter(), None, &data, h);
    let r256 = qwt::RSQVector256::from(qv.clone());
    drive_fwd(rep, "RSQVector256::iter", r256.iter(), None, &data, h);
    drive_fwd(rep, "(&RSQVector256).into_iter", (&r256).into_iter(), None, &data, h);
    drive_fwd(rep, "RSQVector256::into_iter", r256.into_iter(), None, &data, h);
    let r512 = qwt::RSQVector512::from(qv);
    drive_fwd(rep, "RSQVector512::iter", r512.iter(), None, &data, h);
    drive_fwd(rep, "RSQVector512::into_iter", r512.into_iter(), None, &data, h);
    // adaptors built on nth(): skip and step_by
    for k in [1usize, 3, 5, 7, 255, 256, 257] {
        let want: Vec<u8> = data.iter().copied().step_by(k).collect();
        let qv2: QVector = data.iter().copied().collect();
        chk!(rep, "step_by", ("QVector::iter", k), Exp::Is(true), qv2.iter().step_by(k).collect::<Vec<u8>>() == want);
        chk!(rep, "step_by", ("QVector::into_iter", k), Exp::Is(true), qv2.clone().into_iter().step_by(k).collect::<Vec<u8>>() == want);
        let want: Vec<u8> = data.iter().copied().skip(k).collect();
        chk!(rep, "skip", ("QVector::iter", k), Exp::Is(true), qv2.iter().skip(k).collect::<Vec<u8>>() == want);
        // consume a whole number of lines first, then jump
        let mut it = qv2.iter();
        let taken: Vec<u8> = it.by_ref().take(256.min(data.len())).collect();
        let want: Vec<u8> = data.iter().copied().skip(taken.len()).skip(k).collect();
        chk!(rep, "take(256) then skip", ("QVector::iter", k), Exp::Is(true), it.skip(k).collect::<Vec<u8>>() == want);
    }
    chk!(rep, "count", "QVector::iter", Exp::Is(data.len()), { let qv2: QVector = data.iter().copied().collect(); qv2.iter().count() });
    chk!(rep, "last", "QVector::iter", Exp::Is(data.last().copied()), { let qv2: QVector = data.iter().copied().collect(); qv2.iter().last() });
    rep.gate_add("quad_iterators_driven", 8);
}

pub fn cases_c12(cfg: &Cfg) -> Vec<Case> {
    let mut out = Vec::new();
    let mut rng = Rng::derive(cfg.seed, "c12", 0);
    let lens: Vec<usize> = match cfg.scale {
        Scale::Tiny => vec![0, 1, 2, 70],
        Scale::Mid => vec![0, 1, 2, 5, 64, 257, 600],
        Scale::Full => vec![0, 1, 2, 3, 5, 64, 255, 256, 257, 1000, 2049, 5000],
    };
    let all_aliases: Vec<&'static str> = PLAIN_QUAD.iter().chain(HUFF_QUAD.iter()).chain(BIN_TREES.iter()).copied().collect();
    let types: &[&'static str] = if cfg.scale == Scale::Tiny { &["u8", "u128"] } else { &["u8", "u16", "u32", "u64", "usize", "u128"] };
    let reps = if cfg.tier == Tier::Thorough && cfg.scale != Scale::Tiny { 4 } else { 1 };
    for (ai, alias) in all_aliases.iter().enumerate() {
        let alias: &'static str = alias;
        for (ti, tname) in types.iter().enumerate() {
            let tname: &'static str = tname;
            if cfg.scale == Scale::Tiny && (ai + ti) % 3 != 0 {
                continue;
            }
            for (li, &n) in lens.iter().enumerate() {
                for r in 0..reps {
                    if cfg.scale != Scale::Full && (ai + ti + li + r) % 2 == 1 {
                        continue;
                    }
                    let huff = alias.starts_with('H');
                    let alpha = match (li + ti + r) % 4 {
                        0 => Alpha::Dense(4),
                        1 => Alpha::Dense(37),
                        2 => {
                            if huff {
                                Alpha::Holes { k: 9, max: 200 }
                            } else {
                                Alpha::Top(9)
                            }
                        }
                        _ => Alpha::Single(3),
                    };
                    let spec = SeqSpec { n, alpha, dist: Dist::Zipf, layout: Layout::Iid, seed: rng.u64() };
                    let seed = rng.u64();
                    let ty = format!("{}<{}>", alias, tname);
                    let class = format!("{}|{}", ty, spec.class());
                    let desc = J::obj().set("spec", spec.to_json()).set("seed", seed);
                    out.push(Case::new(ty, class, desc, (n as u64 + 10) * 30, move |rep: &mut Rep| {
                        with_tree!(alias, tname, run_tree_iters, rep, &spec, seed);
                    }));
                }
            }
        }
    }
    let blens: Vec<usize> = match cfg.scale {
        Scale::Tiny => vec![0, 1, 65, 513],
        _ => vec![0, 1, 2, 63, 64, 65, 511, 512, 513, 1500, 4097],
    };
    for (i, &n) in blens.iter().enumerate() {
        for (k, kind) in [BitKind::Density(500), BitKind::Zeros, BitKind::Ones, BitKind::Density(30)].into_iter().enumerate() {
            if cfg.scale == Scale::Tiny && (i + k) % 2 == 1 {
                continue;
            }
            let spec = BitSpec { n, kind, seed: rng.u64() };
            let class = format!("bits|{}", spec.class());
            let desc = J::obj().set("spec", spec.to_json());
            out.push(Case::new("BitVector/BitVectorMut/DArray iterators", class, desc, n as u64 * 20 + 50, move |rep: &mut Rep| run_bit_iters(rep, &spec)));
        }
    }
    let qlens: Vec<usize> = match cfg.scale {
        Scale::Tiny => vec![0, 1, 129, 257],
        _ => vec![0, 1, 2, 127, 128, 129, 255, 256, 257, 1000, 4097],
    };
    for (i, &n) in qlens.iter().enumerate() {
        for (k, kind) in [QuadKind::Uniform, QuadKind::Constant(3), QuadKind::Periodic].into_iter().enumerate() {
            if cfg.scale == Scale::Tiny && (i + k) % 2 == 1 {
                continue;
            }
            let spec = QuadSpec { n, kind, seed: rng.u64() };
            let class = format!("quads|{}", spec.class());
            let desc = J::obj().set("spec", spec.to_json());
            out.push(Case::new("QVector/RSQVector iterators", class, desc, n as u64 * 10 + 50, move |rep: &mut Rep| run_quad_iters(rep, &spec)));
        }
    }
    let _ = (guard(|| ()), kind_of::<()>);
    out
}
