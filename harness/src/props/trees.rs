//! C01 (quad wavelet tree), C02 (Huffman-shaped quad tree), C03 (binary trees WT / HWT):
//! reference-model monitor over query batteries.

use crate::adapters::*;
use crate::battery::{tree_battery, BatOpts, Digest};
use crate::catalogue::*;
use crate::gen::{gen_seq, SeqSpec};
use crate::json::J;
use crate::model::SeqModel;
use crate::outcome::{guard, Out};
use crate::report::{kind_of, Cfg, Rep, Scale, Tier};
use crate::{with_tree, Case};

#[derive(Clone, Debug)]
pub struct TreeRun {
    pub spec: SeqSpec,
    /// 0 = new(&mut [T]), 1 = From<Vec<T>>, 2 = collect()
    pub path: u8,
    /// tie-break seeds to build with (None = natural hash-map order); one build per entry
    pub ties: Vec<Option<u64>>,
    pub opts: BatOpts,
}

pub const N_PATHS: u8 = 6;

pub fn path_name(p: u8) -> &'static str {
    match p % N_PATHS {
        0 => "new",
        1 => "from_vec",
        2 => "collect",
        3 => "from_vec(spare capacity >= 2*len)",
        4 => "from_vec(truncated longer vector)",
        _ => "new(on the front of a longer slice)",
    }
}

/// the three constructors, plus the same constructors fed containers in other states a caller can hand over:
/// a `Vec` with spare capacity, a `Vec` that was longer and has been truncated, a sub-slice of a longer buffer
pub fn build_tree<Tr: TreeApi>(data: &[Tr::Item], path: u8) -> Tr {
    match path % N_PATHS {
        0 => {
            let mut v = data.to_vec();
            Tr::b_new(&mut v)
        }
        1 => Tr::b_from(data.to_vec()),
        2 => Tr::b_collect(data.to_vec()),
        3 => {
            let mut v: Vec<Tr::Item> = Vec::with_capacity(2 * data.len() + 9);
            v.extend_from_slice(data);
            Tr::b_from(v)
        }
        4 => {
            let mut v: Vec<Tr::Item> = Vec::with_capacity(data.len() + data.len() / 2 + 3);
            v.extend_from_slice(data);
            // stale elements beyond the logical end
            v.extend(data.iter().rev().take(data.len() / 2 + 3).copied());
            v.truncate(data.len());
            Tr::b_from(v)
        }
        _ => {
            let mut v = data.to_vec();
            v.extend(data.iter().rev().take(17).copied());
            let n = data.len();
            Tr::b_new(&mut v[..n])
        }
    }
}

/// Build under the panic guard; a panic in construction is reported as a violation of op "build".
pub fn guarded_build<Tr: TreeApi>(rep: &mut Rep, data: &[Tr::Item], path: u8) -> Option<Tr> {
    if rep.trace {
        rep.journal("build", path_name(path));
    }
    let out = guard(|| build_tree::<Tr>(data, path));
    rep.tick("build");
    match out {
        Out::Val(t) => Some(t),
        Out::Panic(p) => {
            let o: Out<()> = Out::Panic(p.clone());
            rep.viol(
                "build",
                format!("path={} n={}", path_name(path), data.len()),
                "construction succeeds".into(),
                format!("{:?}", p),
                kind_of(&o),
            );
            None
        }
    }
}

/// After building a Huffman-shaped tree: record the code-length profile chosen by the builder
/// (hook), tag inputs whose longest code exceeds 32 bits.
pub fn observe_codes<Tr: TreeApi>(rep: &mut Rep) -> Option<u32> {
    if !Tr::KIND.is_huff() {
        return None;
    }
    let lens = qwt::verif::last_lengths();
    if lens.is_empty() {
        return None;
    }
    let bits_per = Tr::KIND.bits_per_level() as u32;
    let mut hist = std::collections::BTreeMap::new();
    for (_, l) in &lens {
        *hist.entry(*l * bits_per).or_insert(0u32) += 1;
    }
    let max_bits = *hist.keys().last().unwrap();
    let profile: Vec<String> = hist.iter().map(|(l, c)| format!("{}x{}", l, c)).collect();
    let profile = profile.join(",");
    rep.gate_set("code_length_profiles", profile.clone());
    rep.gate_max("max_code_bits", max_bits as u64);
    rep.gate_max("max_distinct_code_lengths", hist.len() as u64);
    if max_bits > 32 {
        rep.tag("code_longer_than_32_bits");
    }
    if lens.len() <= 80 {
        rep.note("code_lengths", J::Str(format!("{:?}", lens)));
    } else {
        rep.note("code_length_profile", J::Str(profile));
    }
    Some(max_bits)
}

pub fn hash_bytes(b: &[u8]) -> u64 {
    let mut h: u64 = 0xcbf29ce484222325;
    for &x in b {
        h ^= x as u64;
        h = h.wrapping_mul(0x100000001b3);
    }
    h
}

pub fn run_tree_case<Tr: TreeApi>(rep: &mut Rep, r: &TreeRun) {
    let raw = gen_seq(&r.spec, <Tr::Item as Sym>::BITS);
    let data: Vec<Tr::Item> = raw.iter().map(|&x| <Tr::Item as Sym>::from_u128(x)).collect();
    // small inputs are dumped in full so that run/logcheck.py can re-check the recorded events
    // against its own, independent model (a guard for the Rust oracle itself)
    if raw.len() <= 48 && (rep.cfg.shard == 0 || rep.cfg.only.is_some()) {
        rep.note("input", J::Arr(raw.iter().map(|&x| J::Str(x.to_string())).collect()));
        rep.allow_events(60);
    }
    let m = SeqModel::new(raw);
    let mut rng = crate::prng::Rng::new(r.spec.seed ^ 0x7EE5);
    let mut forms = std::collections::BTreeSet::new();
    let mut digests: Vec<Digest> = Vec::new();
    for tie in &r.ties {
        if Tr::KIND.is_huff() {
            qwt::verif::set_tie_seed(*tie);
        }
        let t = guarded_build::<Tr>(rep, &data, r.path);
        if Tr::KIND.is_huff() {
            qwt::verif::set_tie_seed(None);
        }
        let Some(t) = t else { continue };
        observe_codes::<Tr>(rep);
        if Tr::KIND.is_huff() {
            let lens = t.level_lens();
            let mut d = lens.clone();
            d.sort_unstable();
            d.dedup();
            rep.gate_max("max_distinct_level_lengths", d.len() as u64);
            if m.syms.len() == 1 {
                rep.gate_add("single_symbol_huffman_trees", 1);
            }
            if r.ties.len() > 1 && m.len() <= 200_000 {
                if let Ok(b) = t.ser() {
                    forms.insert(hash_bytes(&b));
                }
            }
        }
        // same query plan for every tie order of the same input
        let mut qrng = rng.clone();
        let dg = tree_battery(rep, &t, &m, &mut qrng, &r.opts);
        digests.push(dg);
    }
    rng.u64();
    if forms.len() > 1 {
        rep.gate_max("max_distinct_tie_forms_one_input", forms.len() as u64);
    }
    // every tie order must give the same answers (they all equal the model's; the digest also
    // covers n_levels, which may legitimately be equal across orders since lengths are fixed)
    if digests.len() > 1 && digests.iter().any(|d| *d != digests[0]) && rep.cfg.prop != "C15" {
        // answers differ between constructions of the same input: at least one of them already
        // raised a model violation unless only n_levels differs.
        rep.gate_add("tie_orders_with_different_digest", 1);
    }
}

fn budget(cfg: &Cfg) -> usize {
    match (cfg.scale, cfg.tier) {
        (Scale::Tiny, Tier::Quick) => 60,
        (Scale::Tiny, Tier::Thorough) => 220,
        (Scale::Mid, Tier::Quick) => 4_000,
        (Scale::Mid, Tier::Thorough) => 12_000,
        (Scale::Full, Tier::Quick) => 16_000,
        (Scale::Full, Tier::Thorough) => 60_000,
    }
}

fn pairs(cfg: &Cfg, aliases: &[&'static str]) -> Vec<(&'static str, &'static str)> {
    let mut v = Vec::new();
    match cfg.scale {
        Scale::Tiny => {
            // interpreters: two aliases x three element widths, rotated
            let ts = ["u8", "u64", "u128", "u16"];
            for (i, a) in aliases.iter().enumerate() {
                v.push((*a, ts[i % ts.len()]));
            }
        }
        _ => {
            for a in aliases {
                for t in ELEM_TYPES {
                    v.push((*a, t));
                }
            }
        }
    }
    v
}

fn weight(spec: &SeqSpec, bits: u32, budget: usize, builds: usize) -> u64 {
    let levels = (bits as u64 / 2).max(1);
    (spec.n as u64 * levels.min(16) / 8 + budget as u64 * 2) * builds as u64
}

fn tree_case(alias: &'static str, tname: &'static str, r: TreeRun, w: u64) -> Case {
    let ty = format!("{}<{}>", alias, tname);
    let class = format!("{}|{}|{}", ty, r.spec.class(), path_name(r.path));
    let desc = J::obj()
        .set("spec", r.spec.to_json())
        .set("path", path_name(r.path))
        .set("ties", format!("{:?}", r.ties))
        .set("budget", r.opts.budget)
        .set("unchecked", r.opts.unchecked);
    Case::new(ty, class, desc, w, move |rep: &mut Rep| {
        with_tree!(alias, tname, run_tree_case, rep, &r);
    })
}

/// thin every k-th spec for the tiny scale (interpreters)
fn thin<T: Clone>(v: Vec<T>, scale: Scale, tier: Tier, salt: usize) -> Vec<T> {
    if scale != Scale::Tiny {
        return v;
    }
    let k = if tier == Tier::Quick { 8 } else { 2 };
    v.into_iter().enumerate().filter(|(i, _)| (i + salt) % k == 0).map(|(_, x)| x).collect()
}

pub fn plain_cases(cfg: &Cfg, aliases: &[&'static str], opts: &BatOpts) -> Vec<Case> {
    let mut out = Vec::new();
    for (pi, (alias, tname)) in pairs(cfg, aliases).into_iter().enumerate() {
        let bits = elem_bits(tname);
        let specs = thin(plain_tree_specs(cfg.scale, cfg.tier, bits, cfg.seed), cfg.scale, cfg.tier, pi);
        for (j, spec) in specs.into_iter().enumerate() {
            let w = weight(&spec, bits, opts.budget, 1);
            let r = TreeRun { spec, path: ((j + pi) % N_PATHS as usize) as u8, ties: vec![None], opts: opts.clone() };
            out.push(tree_case(alias, tname, r, w));
        }
    }
    out
}

pub fn huff_cases(cfg: &Cfg, aliases: &[&'static str], arity: usize, opts: &BatOpts, with_over32: bool) -> Vec<Case> {
    let mut out = Vec::new();
    let nties = match (cfg.scale, cfg.tier) {
        (Scale::Tiny, _) => 1,
        (_, Tier::Quick) => 3,
        (Scale::Mid, Tier::Thorough) => 4,
        (Scale::Full, Tier::Thorough) => 8,
    };
    let mut rng = crate::prng::Rng::derive(cfg.seed, "huff_ties", arity as u64);
    for (pi, (alias, tname)) in pairs(cfg, aliases).into_iter().enumerate() {
        let bits = elem_bits(tname);
        let specs = thin(huff_tree_specs(cfg.scale, cfg.tier, bits, arity, cfg.seed), cfg.scale, cfg.tier, pi);
        for (j, spec) in specs.into_iter().enumerate() {
            // big inputs are built once, small ones under several tie orders
            let k = if spec.n > 100_000 { 1 } else { nties };
            let mut ties: Vec<Option<u64>> = vec![None];
            for _ in 1..k {
                ties.push(Some(rng.u64()));
            }
            if cfg.scale == Scale::Tiny {
                ties = vec![Some(rng.u64())];
            }
            let w = weight(&spec, 16, opts.budget, ties.len());
            let r = TreeRun { spec, path: ((j + pi) % N_PATHS as usize) as u8, ties, opts: opts.clone() };
            out.push(tree_case(alias, tname, r, w));
        }
    }
    if cfg.scale == Scale::Full && cfg.rep == 0 {
        // long (25..27-bit) codewords on two branches
        let spec = long_two_branch_spec(cfg.seed ^ 0x2B);
        let alias = aliases[aliases.len() - 1];
        let mut o = opts.clone();
        o.budget = o.budget.min(6000);
        o.iter = false;
        let w = spec.n as u64 * 3;
        let r = TreeRun { spec, path: 2, ties: vec![None], opts: o };
        out.push(tree_case(alias, "u8", r, w));
    }
    if with_over32 && cfg.scale == Scale::Full && cfg.rep == 0 {
        // the deepest supported code: exactly 32 bits
        let spec = deepest_supported_spec(arity, cfg.seed ^ 0x0320);
        let alias = aliases[aliases.len() / 2];
        let mut o = opts.clone();
        o.budget = o.budget.min(6000);
        o.iter = false;
        let w = spec.n as u64 * 4;
        let r = TreeRun { spec, path: 0, ties: vec![None], opts: o };
        out.push(tree_case(alias, "u16", r, w));
    }
    if with_over32 && cfg.scale == Scale::Full && cfg.rep == 0 {
        // the input whose longest code exceeds 32 bits (known finding; see known_findings.json)
        let spec = over32_spec(arity, cfg.seed ^ 0x0532);
        let alias = aliases[0];
        let mut o = opts.clone();
        o.budget = o.budget.min(4000);
        o.iter = false;
        let w = spec.n as u64 * 4;
        let r = TreeRun { spec, path: 1, ties: vec![None], opts: o };
        out.push(tree_case(alias, "u32", r, w));
    }
    out
}

pub fn cases_c01(cfg: &Cfg) -> Vec<Case> {
    let aliases: &[&'static str] = if cfg.scale == Scale::Tiny { &["QWT256Pfs", "QWT512", "QWT256", "QWT512Pfs"] } else { &PLAIN_QUAD };
    plain_cases(cfg, aliases, &BatOpts::new(budget(cfg)))
}

pub fn cases_c02(cfg: &Cfg) -> Vec<Case> {
    let aliases: &[&'static str] = if cfg.scale == Scale::Tiny { &["HQWT256Pfs", "HQWT512", "HQWT256", "HQWT512Pfs"] } else { &HUFF_QUAD };
    huff_cases(cfg, aliases, 4, &BatOpts::new(budget(cfg)), true)
}

pub fn cases_c03(cfg: &Cfg) -> Vec<Case> {
    let opts = BatOpts::new(budget(cfg));
    let mut v = plain_cases(cfg, &["WT"], &opts);
    v.extend(huff_cases(cfg, &["HWT"], 2, &opts, true));
    v
}
