//! C04: the safe API is total and memory-safe for every argument and every state.
//!
//! (type, state, method) x hostile argument tuples, with the outcome classifier: a value where the
//! model says so, `None` for arguments that do not denote a valid position / symbol / occurrence,
//! and panics only where documented (classified by operation and argument predicate, never by
//! message text). Process deaths (aborts, signals, sanitizer / Miri reports) are attributed by the
//! orchestrator through the journal. The same cases run in every lane: that matrix *is* the
//! property ("in optimized builds and in builds with debug assertions and overflow checks").

use crate::adapters::*;
use crate::battery::{tree_battery, BatOpts, BAD_POSITIONS};
use crate::gen::*;
use crate::json::J;
use crate::model::{BitModel, QuadModel, SeqModel};
use crate::outcome::{guard, Out};
use crate::prng::Rng;
use crate::props::bitvec::{observe_full_opt, observe_light};
use crate::props::vectors::{bin_battery, darray_battery, quad_battery, VecOpts};
use crate::report::{kind_of, Cfg, Exp, Rep, Scale, Tier};
use crate::{chk, with_tree, Case};
use qwt::{AccessBin, AccessQuad, BitVector, BitVectorMut, DArray, QVector, QVectorBuilder, SelectBin, SpaceUsage};

pub const HOSTILE: [usize; 10] = [0, 1, 2, 63, 64, usize::MAX, usize::MAX - 1, 1 << 63, (1 << 43) + 1, u32::MAX as usize];

use crate::tiny;

fn hostile_positions(n: usize) -> Vec<usize> {
    if tiny() {
        let mut v = vec![0, 1, n.wrapping_sub(1), n, n + 1, n + 256, usize::MAX, 1 << 63];
        v.sort_unstable();
        v.dedup();
        return v;
    }
    let mut v: Vec<usize> = HOSTILE.to_vec();
    for d in [n.wrapping_sub(2), n.wrapping_sub(1), n, n + 1, n + 2, n + 255, n + 256, n + 257, n + 511, n + 512, n + 2048, n + 4096, 2 * n + 1] {
        v.push(d);
    }
    v.sort_unstable();
    v.dedup();
    v
}

fn state_viol(rep: &mut Rep, what: &str, p: &crate::outcome::PanicInfo) {
    let o: Out<()> = Out::Panic(p.clone());
    rep.tick("state");
    rep.viol("make_state", what.to_string(), "state can be obtained without a panic".into(), format!("{:?}", p), kind_of(&o));
}

// ---------------------------------------------------------------------------------------------
// trees
// ---------------------------------------------------------------------------------------------

fn run_tree_states<Tr: TreeApi>(rep: &mut Rep, spec: &SeqSpec, budget: usize) {
    let raw = gen_seq(spec, <Tr::Item as Sym>::BITS);
    let data: Vec<Tr::Item> = raw.iter().map(|&x| <Tr::Item as Sym>::from_u128(x)).collect();
    let m = SeqModel::new(raw);
    let mut rng = Rng::new(spec.seed ^ 0xC04);
    let mut states: Vec<(&'static str, Tr)> = Vec::new();
    let mut add = |rep: &mut Rep, name: &'static str, f: &dyn Fn() -> Option<Tr>| match guard(f) {
        Out::Val(Some(t)) => states.push((name, t)),
        Out::Val(None) => {}
        Out::Panic(p) => state_viol(rep, name, &p),
    };
    add(rep, "new", &|| Some(crate::props::trees::build_tree::<Tr>(&data, 0)));
    if !tiny() {
        add(rep, "from_vec", &|| Some(crate::props::trees::build_tree::<Tr>(&data, 1)));
        add(rep, "collect", &|| Some(crate::props::trees::build_tree::<Tr>(&data, 2)));
    }
    if data.is_empty() {
        add(rep, "default", &|| Some(Tr::b_default()));
        if !tiny() {
            add(rep, "default.clone", &|| Some(Tr::b_default().clone()));
        }
        add(rep, "de(ser(default))", &|| {
            let t = Tr::b_default();
            Some(Tr::de(&t.ser().expect("serialize")).expect("deserialize"))
        });
    }
    if !tiny() {
        add(rep, "new.clone", &|| Some(crate::props::trees::build_tree::<Tr>(&data, 0).clone()));
    }
    add(rep, "de(ser(from_vec))", &|| {
        let t = crate::props::trees::build_tree::<Tr>(&data, 1);
        Some(Tr::de(&t.ser().expect("serialize")).expect("deserialize"))
    });
    drop(add);
    crate::props::trees::observe_codes::<Tr>(rep);
    for (name, t) in &states {
        rep.gate_set("states", format!("{}:{}", if data.is_empty() { "empty" } else { "nonempty" }, name));
        chk!(rep, "eq(self)", name, Exp::Is(true), t == t);
        let mut qrng = rng.clone();
        check_tree_state::<Tr::Item>(rep, name, t as &dyn DynTree<Tr::Item>, &m, &mut qrng, budget);
    }
    // consuming iterator
    if let Some((_, t)) = states.pop() {
        let n = m.len();
        chk!(rep, "into_iter exhaust", "last state", Exp::Is(n), {
            let mut it = t.into_iter_box();
            let mut c = 0usize;
            while it.next_back().is_some() {
                c += 1;
            }
            let _ = it.next();
            let _ = it.len();
            c
        });
    }
    if m.len() >= 2 {
        rep.nontrivial();
    }
}

/// everything that can be asked of one state of a tree, through the object-safe view
fn check_tree_state<T: Sym>(rep: &mut Rep, name: &'static str, t: &dyn DynTree<T>, m: &SeqModel, rng: &mut Rng, budget: usize) {
    if rep.trace {
        rep.journal("state", name);
    }
    let kind = t.kind();
    let mut o = BatOpts::new(budget);
    o.invalid = true;
    tree_battery(rep, t, m, rng, &o);
    // every remaining safe method
    chk!(rep, "n_levels", name, Exp::AnyVal, t.n_levels_());
    chk!(rep, "space_usage_byte", name, Exp::AnyVal, t.space());
    chk!(rep, "space_usage_scaled", name, Exp::AnyVal, t.space_scaled());
    chk!(rep, "fmt::Debug", name, Exp::AnyVal, t.debug_len());
    // hostile (symbol, position) products beyond what the battery samples
    let tmax = T::max_u128();
    let mx = m.max().unwrap_or(0);
    let mut syms: Vec<u128> = vec![0, 1, 3, 4, 255, 256, tmax, tmax - 1, tmax / 2, mx, mx.saturating_add(1), mx.saturating_add(2)];
    if T::BITS > 64 {
        syms.extend([1u128 << 64, (1u128 << 64) + 1, (1u128 << 64) | (mx & u64::MAX as u128), 1u128 << 100]);
    }
    if T::BITS > 32 {
        syms.extend([1u128 << 32, (1u128 << 32) | (mx & u32::MAX as u128)]);
    }
    if tiny() {
        syms = vec![0, mx, mx.saturating_add(1), tmax, (1u128 << 64) | (mx & u64::MAX as u128)];
    }
    syms.retain(|&s| s <= tmax);
    syms.sort_unstable();
    syms.dedup();
    let n = m.len();
    for &c in &syms {
        let cs = T::from_u128(c);
        for i in hostile_positions(n) {
            let exp = crate::battery::rank_expectation(kind, m, c, i);
            chk!(rep, "rank", (name, c, i), exp, t.rank_(cs, i));
            if kind.is_quad() {
                let exp = match crate::battery::rank_expectation(kind, m, c, i) {
                    Exp::Is(x) => Exp::Is(Some(x)),
                    Exp::Either(a, b) => Exp::Either(Some(a), Some(b)),
                    _ => unreachable!(),
                };
                chk!(rep, "rank_prefetch", (name, c, i), exp, t.rank_prefetch_(cs, i));
            }
            chk!(rep, "select", (name, c, i), Exp::Is(m.select(c, i)), t.select_(cs, i));
        }
    }
    for i in hostile_positions(n) {
        let exp = if i < n { Some(T::from_u128(m.seq[i])) } else { None };
        chk!(rep, "get", (name, i), Exp::Is(exp), t.get_(i));
    }
    // iterators of every state: run to exhaustion and a few calls beyond
    chk!(rep, "iter exhaust", name, Exp::Is(n), {
        let mut it = t.iter_box();
        let mut c = 0usize;
        while it.next().is_some() {
            c += 1;
        }
        let _ = it.next();
        let _ = it.next_back();
        let _ = it.len();
        c
    });
}

// ---------------------------------------------------------------------------------------------
// quad vectors
// ---------------------------------------------------------------------------------------------

fn run_quad_states<Q: QuadApi>(rep: &mut Rep, spec: &QuadSpec, budget: usize) {
    let data = gen_quads(spec);
    let m = QuadModel::new(data.clone());
    let mut rng = Rng::new(spec.seed ^ 0xC04);
    let mut states: Vec<(&'static str, Q)> = Vec::new();
    let mut add = |rep: &mut Rep, name: &'static str, f: &dyn Fn() -> Q| match guard(f) {
        Out::Val(t) => states.push((name, t)),
        Out::Panic(p) => state_viol(rep, name, &p),
    };
    for p in 0..if tiny() { 1 } else { 4u8 } {
        let d = &data;
        add(rep, crate::props::vectors::quad_path_name(p), &|| crate::props::vectors::build_quad::<Q>(d, p));
    }
    if data.is_empty() {
        add(rep, "default", &|| Q::b_default());
        if !tiny() {
            add(rep, "default.clone", &|| Q::b_default().clone());
        }
        add(rep, "from(QVector::default())", &|| Q::b_from_qv(QVector::default()));
        add(rep, "de(ser(default))", &|| Q::de(&Q::b_default().ser().expect("ser")).expect("de"));
    }
    add(rep, "clone", &|| crate::props::vectors::build_quad::<Q>(&data, 0).clone());
    add(rep, "de(ser)", &|| Q::de(&crate::props::vectors::build_quad::<Q>(&data, 2).ser().expect("ser")).expect("de"));
    drop(add);
    let o = VecOpts { budget, unchecked: false, invalid: true };
    let n = m.len();
    for (name, q) in &states {
        if rep.trace {
            rep.journal("state", name);
        }
        rep.gate_set("states", format!("{}:{}", if data.is_empty() { "empty" } else { "nonempty" }, name));
        let mut qrng = rng.clone();
        quad_battery(rep, q, &m, &mut qrng, &o);
        // every symbol value 0..=255 x hostile positions
        let all_syms: Vec<u8> = if tiny() { vec![0, 3, 4, 7, 128, 255] } else { (0..=255u8).collect() };
        for s in all_syms {
            for i in hostile_positions(n) {
                let exp = if s <= 3 && i <= n { Some(m.rank(s, i)) } else { None };
                chk!(rep, "rank", (name, s, i), Exp::Is(exp), q.rank_(s, i));
                let exp = if s <= 3 { m.select(s, i) } else { None };
                chk!(rep, "select", (name, s, i), Exp::Is(exp), q.select_(s, i));
            }
            let exp = if s <= 3 { Some(m.occs(s)) } else { None };
            chk!(rep, "occs", (name, s), Exp::Is(exp), q.occs_(s));
            let exp = if s <= 3 { Some(m.occs_smaller(s)) } else { None };
            chk!(rep, "occs_smaller", (name, s), Exp::Is(exp), q.occs_smaller_(s));
        }
        for i in hostile_positions(n) {
            let exp = if i < n { Some(m.seq[i]) } else { None };
            chk!(rep, "get", (name, i), Exp::Is(exp), q.get_(i));
            // prefetching takes arbitrary positions: no fault, no panic
            chk!(rep, "prefetch_info", (name, i), Exp::AnyVal, q.prefetch_info_(i));
            chk!(rep, "prefetch_data", (name, i), Exp::AnyVal, q.prefetch_data_(i));
        }
        chk!(rep, "space_usage_byte", name, Exp::AnyVal, q.space());
        chk!(rep, "fmt::Debug", name, Exp::AnyVal, format!("{:?}", q).len());
        chk!(rep, "iter exhaust", name, Exp::Is(n), {
            let mut it = q.iter_box();
            let mut c = 0;
            while it.next().is_some() {
                c += 1;
            }
            let _ = it.next();
            let _ = it.next();
            c
        });
    }
    if let Some((_, q)) = states.pop() {
        chk!(rep, "into_iter exhaust", "last state", Exp::Is(n), {
            let mut it = q.into_iter_box();
            let mut c = 0;
            while it.next().is_some() {
                c += 1;
            }
            let _ = it.next();
            c
        });
    }
    if n >= 2 {
        rep.nontrivial();
    }
}

fn run_qvector(rep: &mut Rep, spec: &QuadSpec) {
    let data = gen_quads(spec);
    let n = data.len();
    let mut states: Vec<(&'static str, QVector)> = vec![];
    match guard(|| data.iter().copied().collect::<QVector>()) {
        Out::Val(q) => states.push(("collect", q)),
        Out::Panic(p) => state_viol(rep, "collect", &p),
    }
    match guard(|| {
        let mut b = QVectorBuilder::with_capacity(n / 2);
        for &s in &data {
            b.push(s | 0xF0); // stray high bits: only the two low bits count
        }
        b.build()
    }) {
        Out::Val(q) => states.push(("builder+stray bits", q)),
        Out::Panic(p) => state_viol(rep, "builder", &p),
    }
    if n == 0 {
        states.push(("default", QVector::default()));
        match guard(|| bincode::deserialize::<QVector>(&bincode::serialize(&QVector::default()).unwrap()).unwrap()) {
            Out::Val(q) => states.push(("de(ser(default))", q)),
            Out::Panic(p) => state_viol(rep, "de(ser(default))", &p),
        }
        for cap in [0usize, 1, 255, 256, 257, 1 << 16, 1 << 24] {
            chk!(rep, "QVectorBuilder::with_capacity", cap, Exp::Is(0usize), QVectorBuilder::with_capacity(cap).build().len());
        }
    }
    for (name, q) in &states {
        chk!(rep, "len", name, Exp::Is(n), q.len());
        chk!(rep, "is_empty", name, Exp::Is(n == 0), q.is_empty());
        for i in hostile_positions(n) {
            let exp = if i < n { Some(data[i]) } else { None };
            chk!(rep, "get", (name, i), Exp::Is(exp), q.get(i));
        }
        chk!(rep, "space_usage_byte", name, Exp::AnyVal, q.space_usage_byte());
        chk!(rep, "fmt::Debug", name, Exp::AnyVal, format!("{:?}", q).len());
        chk!(rep, "iter", name, Exp::Is(true), q.iter().collect::<Vec<u8>>() == data);
    }
    if n >= 2 {
        rep.nontrivial();
    }
}

// ---------------------------------------------------------------------------------------------
// rank/select bit vectors and DArray
// ---------------------------------------------------------------------------------------------

fn run_bin_states<B: BinApi>(rep: &mut Rep, spec: &BitSpec, budget: usize) {
    let bits = gen_bits(spec);
    let m = BitModel::new(bits.clone());
    let mut rng = Rng::new(spec.seed ^ 0xC04);
    let mut states: Vec<(&'static str, B)> = Vec::new();
    let mut add = |rep: &mut Rep, name: &'static str, f: &dyn Fn() -> B| match guard(f) {
        Out::Val(t) => states.push((name, t)),
        Out::Panic(p) => state_viol(rep, name, &p),
    };
    let mk = || -> BitVector { bits.iter().copied().collect() };
    add(rep, "new", &|| B::b_new(mk()));
    if !tiny() {
        add(rep, "from", &|| B::b_from(mk()));
        add(rep, "new(From<BitVectorMut>)", &|| {
            let bvm: BitVectorMut = bits.iter().copied().collect();
            B::b_new(BitVector::from(bvm))
        });
    }
    if bits.is_empty() {
        add(rep, "default", &|| B::b_default());
        add(rep, "default.clone", &|| B::b_default().clone());
        add(rep, "new(BitVector::default())", &|| B::b_new(BitVector::default()));
        add(rep, "de(ser(default))", &|| B::de(&B::b_default().ser().expect("ser")).expect("de"));
    }
    add(rep, "clone", &|| B::b_new(mk()).clone());
    add(rep, "de(ser)", &|| B::de(&B::b_new(mk()).ser().expect("ser")).expect("de"));
    drop(add);
    let o = VecOpts { budget, unchecked: false, invalid: true };
    let n = m.len();
    for (name, b) in &states {
        if rep.trace {
            rep.journal("state", name);
        }
        rep.gate_set("states", format!("{}:{}", if bits.is_empty() { "empty" } else { "nonempty" }, name));
        let mut qrng = rng.clone();
        bin_battery(rep, b, &m, &mut qrng, &o);
        for i in hostile_positions(n) {
            let exp = if i < n { Some(m.bits[i]) } else { None };
            chk!(rep, "get", (name, i), Exp::Is(exp), b.get_(i));
            let (e1, e0): (Exp<Option<usize>>, Exp<Option<usize>>) = if i > n {
                (Exp::Is(None), Exp::Is(None))
            } else if n == 0 {
                (Exp::Either(None, Some(0)), Exp::Either(None, Some(0)))
            } else {
                (Exp::Is(Some(m.rank1(i))), Exp::Is(Some(m.rank0(i))))
            };
            chk!(rep, "rank1", (name, i), e1, b.rank1_(i));
            chk!(rep, "rank0", (name, i), e0, b.rank0_(i));
            chk!(rep, "select1", (name, i), Exp::Is(m.ones.get(i).copied()), b.select1_(i));
            chk!(rep, "select0", (name, i), Exp::Is(m.zeros.get(i).copied()), b.select0_(i));
            chk!(rep, "prefetch", (name, i), Exp::AnyVal, b.prefetch_(i));
        }
        chk!(rep, "space_usage_byte", name, Exp::AnyVal, b.space());
        chk!(rep, "fmt::Debug", name, Exp::AnyVal, format!("{:?}", b).len());
    }
    if n >= 2 {
        rep.nontrivial();
    }
}

fn run_darray_states<const S0: bool>(rep: &mut Rep, spec: &BitSpec, budget: usize) {
    run_darray_states_bits::<S0>(rep, gen_bits(spec), spec.seed, budget)
}

/// the same for inputs given as groups of ones (sparse / dense / partial blocks)
fn run_darray_states_groups<const S0: bool>(rep: &mut Rep, g: &GroupSpec, complement: bool, budget: usize) {
    let pos = gen_group_positions(g);
    let n = pos.last().map(|&p| p + 1 + g.tail).unwrap_or(g.tail);
    let mut bits = vec![false; n];
    for p in pos {
        bits[p] = true;
    }
    if complement {
        for b in bits.iter_mut() {
            *b = !*b;
        }
    }
    run_darray_states_bits::<S0>(rep, bits, g.seed, budget)
}

fn run_darray_states_bits<const S0: bool>(rep: &mut Rep, bits: Vec<bool>, seed: u64, budget: usize) {
    let m = BitModel::new(bits.clone());
    let mut rng = Rng::new(seed ^ 0xC04);
    let mut states: Vec<(&'static str, DArray<S0>)> = Vec::new();
    let mut add = |rep: &mut Rep, name: &'static str, f: &dyn Fn() -> DArray<S0>| match guard(f) {
        Out::Val(t) => states.push((name, t)),
        Out::Panic(p) => state_viol(rep, name, &p),
    };
    // interpreter lanes, long vectors (the sparse-block shapes need > 65536 bits): collecting 10^5 booleans costs
    // more than a minute under Miri, so the bit vector comes from the position list (+ zero tail) and the per-bit
    // construction paths are left to the native lanes
    let long_tiny = tiny() && bits.len() > 20_000;
    let bv_of = || -> BitVector {
        if long_tiny {
            let mut b: qwt::BitVectorMut = m.ones.iter().copied().collect();
            b.extend_with_zeros(bits.len() - b.len());
            BitVector::from(b)
        } else {
            bits.iter().copied().collect()
        }
    };
    add(rep, "new", &|| DArray::<S0>::new(bv_of()));
    if !long_tiny {
        add(rep, "collect<bool>", &|| bits.iter().copied().collect());
    }
    if bits.last() == Some(&true) || bits.is_empty() {
        add(rep, "collect<usize>", &|| m.ones.iter().copied().collect());
        if !long_tiny {
            add(rep, "collect<u32>", &|| m.ones.iter().map(|&p| p as u32).collect());
            add(rep, "collect<i64>", &|| m.ones.iter().map(|&p| p as i64).collect());
        }
    }
    if bits.is_empty() {
        add(rep, "default", &|| DArray::<S0>::default());
        add(rep, "default.clone", &|| DArray::<S0>::default().clone());
        add(rep, "new(BitVector::default())", &|| DArray::<S0>::new(BitVector::default()));
        add(rep, "de(ser(default))", &|| bincode::deserialize(&bincode::serialize(&DArray::<S0>::default()).expect("ser")).expect("de"));
    }
    add(rep, "clone", &|| DArray::<S0>::new(bv_of()).clone());
    if !long_tiny {
        add(rep, "de(ser)", &|| {
            let d = DArray::<S0>::new(bv_of());
            bincode::deserialize(&bincode::serialize(&d).expect("ser")).expect("de")
        });
    }
    drop(add);
    let o = VecOpts { budget, unchecked: false, invalid: true };
    let n = m.len();
    for (si, (name, d)) in states.iter().enumerate() {
        if rep.trace {
            rep.journal("state", name);
        }
        rep.gate_set("states", format!("{}:{}", if bits.is_empty() { "empty" } else { "nonempty" }, name));
        let mut qrng = rng.clone();
        darray_battery(rep, d, &m, &mut qrng, &o);
        for i in hostile_positions(n) {
            let exp = if i < n { Some(m.bits[i]) } else { None };
            chk!(rep, "get", (name, i), Exp::Is(exp), AccessBin::get(d, i));
            chk!(rep, "select1", (name, i), Exp::Is(m.ones.get(i).copied()), d.select1(i));
            if S0 {
                chk!(rep, "select0", (name, i), Exp::Is(m.zeros.get(i).copied()), d.select0(i));
            } else {
                // documented: select0 panics on a DArray built without select0 support
                chk!(rep, "select0[no support]", (name, i), Exp::PanicOr(m.zeros.get(i).copied()), d.select0(i));
            }
            // (interpreters, long vectors: the full walk over 10^5 zeros once per case, from position 0)
            if (!tiny() || i == 0 || i == usize::MAX) && (!long_tiny || si == 0 || i == usize::MAX) {
                let eo: Vec<usize> = m.ones.iter().copied().filter(|&x| x >= i).collect();
                let ez: Vec<usize> = m.zeros.iter().copied().filter(|&x| x >= i).collect();
                chk!(rep, "ones_with_pos", (name, i), Exp::Is(true), d.ones_with_pos(i).collect::<Vec<_>>() == eo);
                chk!(rep, "zeros_with_pos", (name, i), Exp::Is(true), d.zeros_with_pos(i).collect::<Vec<_>>() == ez);
            }
        }
        chk!(rep, "space_usage_byte", name, Exp::AnyVal, d.space_usage_byte());
        chk!(rep, "fmt::Debug", name, Exp::AnyVal, format!("{:?}", d).len());
    }
    // position-list constructors fed non-increasing / negative input: documented panic
    if !bits.is_empty() {
        chk!(rep, "DArray collect non-increasing", "[3,3]", Exp::PanicOnly, {
            let d: DArray<S0> = vec![3usize, 3].into_iter().collect();
            d.len()
        });
        chk!(rep, "DArray collect decreasing", "[5,2]", Exp::PanicOnly, {
            let d: DArray<S0> = vec![5usize, 2].into_iter().collect();
            d.len()
        });
        chk!(rep, "DArray collect negative", "[-1,2]", Exp::PanicOnly, {
            let d: DArray<S0> = vec![-1i32, 2].into_iter().collect();
            d.len()
        });
        chk!(rep, "BitVector collect negative", "[-1]", Exp::PanicOnly, {
            let b: BitVector = vec![-1i64].into_iter().collect();
            b.len()
        });
        // BitVector accepts positions in any order
        chk!(rep, "BitVector collect unordered", "[9,2,9,0]", Exp::Is((10usize, 3usize)), {
            let b: BitVector = vec![9usize, 2, 9, 0].into_iter().collect();
            (b.len(), b.count_ones())
        });
    }
    if n >= 2 {
        rep.nontrivial();
    }
}

// ---------------------------------------------------------------------------------------------
// bit vectors: hostile argument matrix
// ---------------------------------------------------------------------------------------------

fn run_bitvec_hostile(rep: &mut Rep, spec: &BitSpec, budget: usize) {
    let bits = gen_bits(spec);
    let n = bits.len();
    let mut rng = Rng::new(spec.seed ^ 0xC04);
    let ones = bits.iter().filter(|&&b| b).count();
    // states
    let mut muts: Vec<(&'static str, BitVectorMut)> = Vec::new();
    muts.push(("collect<bool>", bits.iter().copied().collect()));
    muts.push(("push", {
        let mut b = BitVectorMut::new();
        for &x in &bits {
            b.push(x);
        }
        b
    }));
    muts.push(("with_capacity+extend", {
        let mut b = BitVectorMut::with_capacity(n * 2 + 1);
        b.extend(bits.iter().copied());
        b
    }));
    if n == 0 {
        muts.push(("default", BitVectorMut::default()));
        muts.push(("new", BitVectorMut::new()));
        muts.push(("with_zeros(0)", BitVectorMut::with_zeros(0)));
        muts.push(("with_capacity(0)", BitVectorMut::with_capacity(0)));
        muts.push(("From<BitVector::default()>", BitVectorMut::from(BitVector::default())));
        if let Some(b) = guard(|| bincode::deserialize::<BitVectorMut>(&bincode::serialize(&BitVectorMut::default()).unwrap()).unwrap()).val() {
            muts.push(("de(ser(default))", b));
        }
        for cap in [0usize, 1, 63, 64, 65, 512, 1 << 20, 1 << 24] {
            chk!(rep, "with_capacity", cap, Exp::Is(0usize), BitVectorMut::with_capacity(cap).len());
            chk!(rep, "with_zeros", cap, Exp::Is((cap, 0usize)), {
                let b = BitVectorMut::with_zeros(cap);
                (b.len(), b.count_ones())
            });
        }
    }
    let imms: Vec<(&'static str, BitVector)> = vec![
        ("collect<bool>", bits.iter().copied().collect()),
        ("From<BitVectorMut>", BitVector::from(muts[1].1.clone())),
        ("de(ser)", bincode::deserialize(&bincode::serialize(&bits.iter().copied().collect::<BitVector>()).unwrap()).unwrap()),
    ];
    let mut imms = imms;
    if n == 0 && !tiny() {
        imms.push(("default", BitVector::default()));
    }
    // ---- readers with hostile arguments
    let hp = hostile_positions(n);
    let lens: Vec<usize> = if tiny() { vec![0, 1, 64, 65, usize::MAX] } else { vec![0, 1, 2, 63, 64, 65, 128, usize::MAX, usize::MAX - 1, 1 << 63, n, n + 1] };
    if tiny() {
        // one state of each kind is enough for the interpreters
        muts.truncate(if n == 0 { 4 } else { 2 });
        imms.truncate(1);
        if n == 0 {
            imms.push(("default", BitVector::default()));
        }
    }
    let mut first_state = true;
    macro_rules! readers {
        ($name:expr, $b:expr, $kind:expr) => {{
            let b = $b;
            rep.gate_set("states", format!("{}:{}:{}", $kind, if n == 0 { "empty" } else { "nonempty" }, $name));
            if !tiny() || first_state {
                observe_full_opt(rep, b, &bits, &mut rng, false, budget, false);
            } else {
                observe_light(rep, b, &bits, &mut rng);
            }
            first_state = false;
            for &i in &hp {
                let exp = if i < n { Some(bits[i]) } else { None };
                chk!(rep, "get", ($kind, $name, i), Exp::Is(exp), AccessBin::get(b, i));
                for &len in &lens {
                    let valid = len >= 1 && len <= 64 && i.checked_add(len).map_or(false, |e| e <= n);
                    if valid {
                        // in-range reads are C08's business (incl. the known finding D9a): here only "no panic"
                        chk!(rep, "get_bits", ($kind, $name, i, len), Exp::AnyVal, b.get_bits(i, len));
                    } else {
                        chk!(rep, "get_bits", ($kind, $name, i, len), Exp::Is(None), b.get_bits(i, len));
                    }
                }
                // out-of-range word index: documented panic (or zero padding inside the last line)
                let nwords = (n + 63) / 64;
                if i >= nwords {
                    chk!(rep, "get_word[out of range]", ($kind, $name, i), Exp::PanicOr(0u64), b.get_word(i));
                }
                // (the library prints a stray dbg! on every *_with_pos call; writes are extremely slow
                // under the interpreters, so those lanes make only a few of these calls)
                if !tiny() || i == 0 || i == usize::MAX {
                    let eo: Vec<usize> = (0..n).filter(|&x| bits[x] && x >= i).collect();
                    chk!(rep, "ones_with_pos", ($kind, $name, i), Exp::Is(true), b.ones_with_pos(i).collect::<Vec<_>>() == eo);
                    let ez: Vec<usize> = (0..n).filter(|&x| !bits[x] && x >= i).collect();
                    chk!(rep, "zeros_with_pos", ($kind, $name, i), Exp::Is(true), b.zeros_with_pos(i).collect::<Vec<_>>() == ez);
                }
            }
            chk!(rep, "space_usage_byte", ($kind, $name), Exp::AnyVal, b.space_usage_byte());
            chk!(rep, "fmt::Debug", ($kind, $name), Exp::AnyVal, format!("{:?}", b).len());
        }};
    }
    for (name, b) in &muts {
        readers!(*name, b, "BitVectorMut");
    }
    for (name, b) in &imms {
        readers!(*name, b, "BitVector");
        chk!(rep, "n_lines", ("BitVector", name), Exp::Is((n + 511) / 512), b.n_lines());
        for &i in &hp {
            chk!(rep, "prefetch_line", ("BitVector", name, i), Exp::AnyVal, b.prefetch_line(i));
        }
    }
    // ---- mutators with hostile arguments: in-precondition calls must not panic and must behave
    // like the model; out-of-precondition calls may only panic (documented) — and if they do not
    // panic the vector must still read like the model
    let (_, base) = muts.swap_remove(0);
    let mut model = bits.clone();
    let mut b = base;
    for &i in &hp {
        for bit in [true, false] {
            if i < n {
                chk!(rep, "set", (i, bit), Exp::AnyVal, b.set(i, bit));
                model[i] = bit;
            } else {
                let mut scratch = b.clone();
                chk!(rep, "set[out of bounds]", (i, bit), Exp::PanicOnly, scratch.set(i, bit));
            }
        }
    }
    observe_light(rep, &b, &model, &mut rng);
    for &i in &hp {
        for &len in &lens {
            for bits_v in if tiny() { vec![1u64, u64::MAX] } else { vec![0u64, 1, u64::MAX, 1 << 63, 0xAAAA] } {
                let in_range = len <= 64 && i.checked_add(len).map_or(false, |e| e <= n);
                let clean = len >= 64 || (bits_v >> len) == 0;
                if in_range && clean {
                    chk!(rep, "set_bits", (i, len, bits_v), Exp::AnyVal, b.set_bits(i, len, bits_v));
                    for j in 0..len {
                        model[i + j] = (bits_v >> j) & 1 == 1;
                    }
                } else {
                    let mut scratch = b.clone();
                    chk!(rep, "set_bits[precondition violated]", (i, len, bits_v), Exp::PanicOnly, scratch.set_bits(i, len, bits_v));
                }
            }
        }
    }
    observe_light(rep, &b, &model, &mut rng);
    for &len in &lens {
        for bits_v in [0u64, 1, u64::MAX, 0xF0] {
            let clean = len == 64 || (len < 64 && (bits_v >> len) == 0);
            if len <= 64 && clean {
                chk!(rep, "append_bits", (bits_v, len), Exp::AnyVal, b.append_bits(bits_v, len));
                for j in 0..len {
                    model.push((bits_v >> j) & 1 == 1);
                }
            } else {
                let mut scratch = b.clone();
                chk!(rep, "append_bits[precondition violated]", (bits_v, len), Exp::PanicOnly, scratch.append_bits(bits_v, len));
            }
        }
    }
    for k in [0usize, 1, 63, 64, 511, 512, 513, 100_000] {
        chk!(rep, "extend_with_zeros", k, Exp::AnyVal, b.extend_with_zeros(k));
        model.resize(model.len() + k, false);
    }
    chk!(rep, "shrink_to_fit", (), Exp::AnyVal, b.shrink_to_fit());
    if tiny() {
        observe_light(rep, &b, &model, &mut rng);
        chk!(rep, "iter", "final", Exp::Is(true), b.iter().collect::<Vec<bool>>() == model);
    } else {
        observe_full_opt(rep, &b, &model, &mut rng, false, budget, false);
    }
    let _ = ones;
    if n >= 2 {
        rep.nontrivial();
    }
}

// ---------------------------------------------------------------------------------------------

pub fn cases_c04(cfg: &Cfg) -> Vec<Case> {
    let mut rng = Rng::derive(cfg.seed, "c04", 0);
    let mut out = Vec::new();
    let budget = match (cfg.scale, cfg.tier) {
        (Scale::Tiny, _) => 24,
        (Scale::Mid, Tier::Quick) => 500,
        (Scale::Mid, Tier::Thorough) => 2000,
        (Scale::Full, Tier::Quick) => 1500,
        (Scale::Full, Tier::Thorough) => 6000,
    };
    // ---- trees: every alias x element types x (empty + small non-empty inputs)
    let all_aliases: Vec<&'static str> = PLAIN_QUAD.iter().chain(HUFF_QUAD.iter()).chain(BIN_TREES.iter()).copied().collect();
    let lens: Vec<usize> = match (cfg.scale, cfg.tier) {
        (Scale::Tiny, Tier::Quick) => vec![0, 3],
        (Scale::Tiny, Tier::Thorough) => vec![0, 1, 40],
        (_, Tier::Quick) => vec![0, 1, 2, 300, 2048, 4096],
        _ => vec![0, 1, 2, 5, 255, 256, 257, 2048, 2049, 4096, 6144, 9000],
    };
    for (ai, alias) in all_aliases.iter().enumerate() {
        let alias: &'static str = alias;
        for (ti, tname) in ELEM_TYPES.iter().enumerate() {
            let tname: &'static str = tname;
            if cfg.scale == Scale::Tiny {
                // interpreters: every alias once, element types rotated; u128 and u8 always somewhere
                if ti != (ai * 5 + (cfg.seed as usize)) % 6 {
                    continue;
                }
            }
            let huff = alias.starts_with('H');
            for (li, &n) in lens.iter().enumerate() {
                let bits = elem_bits(tname);
                let alpha = match (li + ti + ai) % 4 {
                    0 => Alpha::Dense(5),
                    1 => {
                        if huff {
                            Alpha::Holes { k: 12, max: 300 }
                        } else {
                            Alpha::Top(6)
                        }
                    }
                    2 => Alpha::Single(if huff { 7 } else { type_max(bits) }),
                    _ => {
                        if huff {
                            Alpha::Dense(40)
                        } else {
                            Alpha::Holes { k: 9, max: type_max(bits) / 3 }
                        }
                    }
                };
                // interpreters: keep the number of levels moderate (a 128-level tree costs minutes)
                let alpha = if cfg.scale == Scale::Tiny && !huff && bits > 32 { Alpha::Holes { k: 4, max: (1u128 << 34).min(type_max(bits)) } } else { alpha };
                let spec = SeqSpec { n, alpha, dist: Dist::Zipf, layout: Layout::Iid, seed: rng.u64() };
                let ty = format!("{}<{}>", alias, tname);
                let class = format!("{}|states|n{}", ty, len_bucket(n));
                let desc = J::obj().set("family", "tree states").set("spec", spec.to_json());
                out.push(Case::new(ty, class, desc, (n as u64 + 50) * 40, move |rep: &mut Rep| {
                    with_tree!(alias, tname, run_tree_states, rep, &spec, budget);
                }));
            }
        }
    }
    // ---- quad vectors
    let qlens: Vec<usize> = if cfg.scale == Scale::Tiny { vec![0, 5] } else { vec![0, 1, 255, 256, 257, 2049, 4096] };
    for &n in &qlens {
        for (k, kind) in [QuadKind::Uniform, QuadKind::Constant(3)].into_iter().enumerate() {
            if cfg.scale == Scale::Tiny && k == 1 {
                continue;
            }
            let spec = QuadSpec { n, kind, seed: rng.u64() };
            for block in [256usize, 512] {
                let spec = spec.clone();
                let ty = if block == 256 { "RSQVector256" } else { "RSQVector512" };
                let class = format!("{}|states|{}", ty, spec.class());
                let desc = J::obj().set("family", "quad vector states").set("spec", spec.to_json());
                out.push(Case::new(ty, class, desc, (n as u64 + 300) * 30, move |rep: &mut Rep| {
                    if block == 256 {
                        run_quad_states::<qwt::RSQVector256>(rep, &spec, budget)
                    } else {
                        run_quad_states::<qwt::RSQVector512>(rep, &spec, budget)
                    }
                }));
            }
            let spec2 = spec.clone();
            let class = format!("QVector|states|{}", spec2.class());
            let desc = J::obj().set("family", "QVector").set("spec", spec2.to_json());
            out.push(Case::new("QVector", class, desc, n as u64 + 100, move |rep: &mut Rep| run_qvector(rep, &spec2)));
        }
    }
    // ---- bit structures
    let blens: Vec<usize> = if cfg.scale == Scale::Tiny { vec![0, 9] } else { vec![0, 1, 63, 64, 65, 512, 513, 4097, 70_000] };
    for &n in &blens {
        for (k, kind) in [BitKind::Density(500), BitKind::Ones, BitKind::Zeros, BitKind::Density(20)].into_iter().enumerate() {
            if cfg.scale == Scale::Tiny && k > 0 {
                continue;
            }
            let spec = BitSpec { n, kind, seed: rng.u64() };
            for ty in ["RSNarrow", "RSWide", "DArray<false>", "DArray<true>", "BitVector/BitVectorMut"] {
                if ty.starts_with("BitVector") && n > 5000 {
                    continue;
                }
                let spec = spec.clone();
                let class = format!("{}|states|{}", ty, spec.class());
                let desc = J::obj().set("family", "bit structure states").set("spec", spec.to_json());
                out.push(Case::new(ty, class, desc, (n as u64 + 100) * 10, move |rep: &mut Rep| match ty {
                    "RSNarrow" => run_bin_states::<qwt::RSNarrow>(rep, &spec, budget),
                    "RSWide" => run_bin_states::<qwt::RSWide>(rep, &spec, budget),
                    "DArray<false>" => run_darray_states::<false>(rep, &spec, budget),
                    "DArray<true>" => run_darray_states::<true>(rep, &spec, budget),
                    _ => run_bitvec_hostile(rep, &spec, budget.min(600)),
                }));
            }
        }
    }
    // ---- DArray states over sparse / partial block shapes (the bit specs above only give dense blocks)
    let shapes: Vec<(&'static str, Vec<Group>, usize)> = vec![
        ("two ones 100000 apart", vec![Group::Span { count: 2, span: if cfg.scale == Scale::Tiny { 66_000 } else { 100_000 } }], 0),
        ("33 ones spanning 70000 (partial sparse block)", vec![Group::Span { count: 33, span: 70_000 }], 5),
        ("40 ones 70000 apart", vec![Group::Stepped { count: 40, step: 70_000 }], 0),
        ("sparse block, dense block, partial sparse block", vec![Group::Stepped { count: 1024, step: 65 }, Group::Stepped { count: 1024, step: 1 }, Group::Span { count: 45, span: 66_000 }], 3),
        ("dense block then 1025th one far away", vec![Group::Stepped { count: 1024, step: 2 }, Group::Span { count: 2, span: 90_000 }], 0),
    ];
    for (si, (name, groups, tail)) in shapes.into_iter().enumerate() {
        if cfg.scale == Scale::Tiny && si > 1 {
            continue; // interpreters: the two tiny shapes
        }
        for s0 in [false, true] {
            for complement in [false, true] {
                if complement && (!s0 || cfg.scale == Scale::Tiny) {
                    continue;
                }
                let g = GroupSpec { groups: groups.clone(), lead: si * 3, gap: 7, tail, seed: rng.u64() };
                let ty = if s0 { "DArray<true>" } else { "DArray<false>" };
                let class = format!("{}|states|groups:{}|c{}", ty, name, complement as u8);
                let desc = J::obj().set("family", "DArray states over sparse/partial blocks").set("groups", g.to_json()).set("complement", complement);
                let b = budget.min(if cfg.scale == Scale::Tiny { 24 } else { 800 });
                out.push(Case::new(ty, class, desc, 200_000, move |rep: &mut Rep| {
                    if s0 {
                        run_darray_states_groups::<true>(rep, &g, complement, b)
                    } else {
                        run_darray_states_groups::<false>(rep, &g, complement, b)
                    }
                }));
            }
        }
    }
    let _ = BAD_POSITIONS;
    out
}
