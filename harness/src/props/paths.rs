//! C19: all construction paths and copies build the same structure.

use crate::adapters::*;
use crate::battery::{tree_battery, BatOpts, Digest};
use crate::catalogue::*;
use crate::gen::*;
use crate::json::J;
use crate::model::{BitModel, QuadModel, SeqModel};
use crate::prng::Rng;
use crate::props::trees::{build_tree, guarded_build, path_name};
use crate::props::vectors::{bin_battery, build_quad, darray_battery, quad_battery, VecOpts};
use crate::report::{Cfg, Exp, Rep, Scale, Tier};
use crate::{chk, with_tree, Case};
use qwt::{BitVector, BitVectorMut, DArray, QVector};

fn run_tree_paths<Tr: TreeApi>(rep: &mut Rep, spec: &SeqSpec, budget: usize) {
    let raw = gen_seq(spec, <Tr::Item as Sym>::BITS);
    let data: Vec<Tr::Item> = raw.iter().map(|&x| <Tr::Item as Sym>::from_u128(x)).collect();
    let m = SeqModel::new(raw.clone());
    let n = data.len();
    let rng = Rng::new(spec.seed ^ 0xC19);
    let o = BatOpts::new(budget);
    let mut built: Vec<(u8, Tr, Digest)> = Vec::new();
    let mut fresh_clone: Option<Tr> = None;
    // (interpreter lanes: the three constructors and the spare-capacity vector)
    let n_paths = if crate::tiny() { 4 } else { crate::props::trees::N_PATHS };
    for path in 0..n_paths {
        if let Some(t) = guarded_build::<Tr>(rep, &data, path) {
            if path == 0 {
                // a copy taken before the original answers any query
                fresh_clone = Some(t.clone());
            }
            let mut r = rng.clone();
            // the value built through the last path is compared while it has never been queried
            let d = if path != 2 { tree_battery(rep, &t as &dyn DynTree<Tr::Item>, &m, &mut r, &o) } else { Digest::default() };
            built.push((path, t, d));
        }
    }
    if let (Some(fc), Some((_, t0, _))) = (fresh_clone.as_ref(), built.first()) {
        chk!(rep, "queried value == its never-queried clone", n, Exp::Is(true), t0 == fc);
        chk!(rep, "never-queried clone == queried value", n, Exp::Is(true), fc == t0);
    }
    if !Tr::KIND.is_huff() && built.len() >= 3 {
        chk!(rep, "queried value == never-queried value built by another path", n, Exp::Is(true), built[0].1 == built[2].1);
    }
    if built.len() >= 3 {
        let mut r = rng.clone();
        built[2].2 = tree_battery(rep, &built[2].1 as &dyn DynTree<Tr::Item>, &m, &mut r, &o);
    }
    for i in 1..built.len() {
        let (pa, ta, da) = &built[0];
        let (pb, tb, db) = &built[i];
        chk!(rep, "paths answer identically (digest)", (path_name(*pa), path_name(*pb), n), Exp::Is(*da), *db);
        if !Tr::KIND.is_huff() {
            chk!(rep, "paths compare equal", (path_name(*pa), path_name(*pb), n), Exp::Is(true), ta == tb);
        }
    }
    let Some((_, t, _)) = built.first() else { return };
    // Clone yields an equal value that answers identically
    let c = t.clone();
    chk!(rep, "clone == original", n, Exp::Is(true), &c == t);
    chk!(rep, "original == clone", n, Exp::Is(true), t == &c);
    let mut r = rng.clone();
    let dc = tree_battery(rep, &c as &dyn DynTree<Tr::Item>, &m, &mut r, &o);
    chk!(rep, "clone answers identically (digest)", n, Exp::Is(built[0].2), dc);
    // values built from different sequences never compare equal
    let mut rr = Rng::new(spec.seed ^ 0x19);
    let tmax = <Tr::Item as Sym>::max_u128();
    let huff = Tr::KIND.is_huff();
    let mut neighbours: Vec<(&'static str, Vec<Tr::Item>)> = Vec::new();
    if n > 0 {
        // one element changed to another symbol of the alphabet (or to a new one)
        let i = rr.usize_below(n);
        let old = raw[i];
        let other = m.syms.iter().copied().find(|&s| s != old).unwrap_or(if old == 0 { 1 } else { old - 1 });
        let mut v = data.clone();
        v[i] = <Tr::Item as Sym>::from_u128(other);
        neighbours.push(("one element changed", v));
        // last element changed
        let mut v = data.clone();
        let lo = raw[n - 1];
        let other = m.syms.iter().copied().find(|&s| s != lo).unwrap_or(if lo == 0 { 1 } else { lo - 1 });
        v[n - 1] = <Tr::Item as Sym>::from_u128(other);
        neighbours.push(("last element changed", v));
        // two different elements swapped
        if let Some(j) = (0..n).find(|&j| raw[j] != raw[i]) {
            let mut v = data.clone();
            v.swap(i, j);
            neighbours.push(("two elements swapped", v));
        }
        // one element removed
        let mut v = data.clone();
        v.pop();
        neighbours.push(("last element removed", v));
        // a different maximum (plain trees: only sigma / the number of levels changes for most positions)
        let mx = m.max().unwrap();
        let bigger = if huff { mx + 1 } else { (mx.saturating_mul(4).saturating_add(3)).min(tmax) };
        if bigger != mx && bigger <= tmax {
            let mut v = data.clone();
            let k = (0..n).find(|&k| raw[k] == mx).unwrap();
            v[k] = <Tr::Item as Sym>::from_u128(bigger);
            neighbours.push(("maximum replaced by a larger symbol", v));
        }
    }
    // two ADJACENT different elements swapped, as late in the sequence as possible and in the middle
    // (block counters, sizes and symbol counts are all preserved: only the payload differs)
    for (what, from) in [("adjacent pair swapped near the end", n), ("adjacent pair swapped in the second half", n / 2 + n / 4)] {
        if let Some(j) = (1..from.min(n)).rev().find(|&j| raw[j] != raw[j - 1]) {
            let mut v = data.clone();
            v.swap(j, j - 1);
            neighbours.push((what, v));
        }
    }
    // one element appended (a symbol of the alphabet)
    let mut v = data.clone();
    v.push(<Tr::Item as Sym>::from_u128(m.syms.first().copied().unwrap_or(0)));
    neighbours.push(("one element appended", v));
    for (ni, (what, v)) in neighbours.into_iter().enumerate() {
        let path = rr.below(3) as u8;
        if let Some(t2) = guarded_build::<Tr>(rep, &v, path) {
            chk!(rep, "different sequence != ", (what, n), Exp::Is(false), &t2 == t);
            chk!(rep, "different sequence != (reversed)", (what, n), Exp::Is(false), t == &t2);
            // Clone::clone_from onto a value that held something else (shorter, longer, deeper, shallower);
            // interpreter lanes: the removed-element and the larger-maximum neighbours only
            if !crate::tiny() || ni == 3 || ni == 4 {
                clone_from_probe::<Tr>(rep, t2, t, &m, &rng, &o, built[0].2, what);
            }
        }
    }
    // ... and onto an empty value
    if let Some(e) = guarded_build::<Tr>(rep, &[], 1) {
        clone_from_probe::<Tr>(rep, e, t, &m, &rng, &o, built[0].2, "empty destination");
    }
    // ... and the other way round: the empty value cloned into a copy of the tree
    if let (Some(e), true) = (guarded_build::<Tr>(rep, &[], 1), n > 0) {
        let me = SeqModel::new(Vec::new());
        let mut r = rng.clone();
        let de = tree_battery(rep, &e as &dyn DynTree<Tr::Item>, &me, &mut r, &o);
        clone_from_probe::<Tr>(rep, t.clone(), &e, &me, &rng, &o, de, "empty source");
    }
    if n >= 2 {
        rep.nontrivial();
    }
}

#[allow(clippy::too_many_arguments)]
fn clone_from_probe<Tr: TreeApi>(rep: &mut Rep, dst: Tr, src: &Tr, m: &SeqModel, rng: &Rng, o: &BatOpts, want: Digest, what: &'static str) {
    let n = m.len();
    let slot = std::cell::RefCell::new(Some(dst));
    let got = chk!(rep, "clone_from", (what, n), Exp::AnyVal, {
        let mut d = slot.borrow_mut().take().unwrap();
        d.clone_from(src);
        *slot.borrow_mut() = Some(d);
    });
    if got.is_panic() {
        return;
    }
    let Some(dst) = slot.into_inner() else { return };
    chk!(rep, "clone_from == source", (what, n), Exp::Is(true), &dst == src);
    chk!(rep, "source == clone_from", (what, n), Exp::Is(true), src == &dst);
    let mut r = rng.clone();
    let d = tree_battery(rep, &dst as &dyn DynTree<Tr::Item>, m, &mut r, o);
    chk!(rep, "clone_from answers identically (digest)", (what, n), Exp::Is(want), d);
}

/// the same numbers carried in wider / narrower element types give the same answers
fn run_widths(rep: &mut Rep, alias: &'static str, spec: &SeqSpec, budget: usize, types: &[&'static str]) {
    let raw = gen_seq(spec, elem_bits(types[0]));
    let m = SeqModel::new(raw.clone());
    let mut o = BatOpts::new(budget);
    o.invalid = false; // invalid-symbol probes depend on the type maximum; valid ones do not
    let mut digests: Vec<(&'static str, Digest)> = Vec::new();
    for &tname in types {
        fn one<Tr: TreeApi>(rep: &mut Rep, raw: &[u128], m: &SeqModel, o: &BatOpts, seed: u64) -> Option<Digest> {
            let data: Vec<Tr::Item> = raw.iter().map(|&x| <Tr::Item as Sym>::from_u128(x)).collect();
            let t = guarded_build::<Tr>(rep, &data, 1)?;
            let mut r = Rng::new(seed);
            Some(tree_battery(rep, &t as &dyn DynTree<Tr::Item>, m, &mut r, o))
        }
        let d = with_tree!(alias, tname, one, rep, &raw, &m, &o, spec.seed ^ 0x77);
        if let Some(d) = d {
            digests.push((tname, d));
        }
    }
    for i in 1..digests.len() {
        chk!(rep, "element widths answer identically (digest)", (alias, digests[0].0, digests[i].0, m.len()), Exp::Is(digests[0].1), digests[i].1);
    }
    rep.gate_add("width_families_compared", 1);
    if m.len() >= 2 {
        rep.nontrivial();
    }
}

fn run_quad_paths<Q: QuadApi>(rep: &mut Rep, spec: &QuadSpec, budget: usize) {
    let data = gen_quads(spec);
    let m = QuadModel::new(data.clone());
    let n = data.len();
    let rng = Rng::new(spec.seed ^ 0xC19);
    let o = VecOpts { budget, unchecked: false, invalid: true };
    let built: Vec<Q> = (0..4u8).map(|p| build_quad::<Q>(&data, p)).collect();
    let fresh = built[0].clone();
    let mut ds = Vec::new();
    {
        let mut r = rng.clone();
        ds.push(quad_battery(rep, &built[0], &m, &mut r, &o));
    }
    // equality must not depend on which side has already answered queries
    chk!(rep, "queried value == its never-queried clone", (Q::NAME, n), Exp::Is(true), built[0] == fresh);
    for i in 1..4 {
        chk!(rep, "queried value == never-queried value built by another path", (Q::NAME, i, n), Exp::Is(true), built[0] == built[i]);
    }
    for q in &built[1..] {
        let mut r = rng.clone();
        ds.push(quad_battery(rep, q, &m, &mut r, &o));
    }
    for i in 1..4 {
        chk!(rep, "paths compare equal", (Q::NAME, i, n), Exp::Is(true), built[0] == built[i]);
        chk!(rep, "paths answer identically (digest)", (Q::NAME, i, n), Exp::Is(ds[0]), ds[i]);
    }
    let c = built[0].clone();
    chk!(rep, "clone == original", (Q::NAME, n), Exp::Is(true), c == built[0]);
    let mut rr = Rng::new(spec.seed ^ 0x19);
    let mut neigh: Vec<(&'static str, Vec<u8>)> = Vec::new();
    if n > 0 {
        let i = rr.usize_below(n);
        let mut v = data.clone();
        v[i] = (v[i] + 1 + rr.below(3) as u8) & 3;
        neigh.push(("one symbol changed", v));
        let mut v = data.clone();
        v.pop();
        neigh.push(("last symbol removed", v));
        if let Some(j) = (0..n).find(|&j| data[j] != data[i]) {
            let mut v = data.clone();
            v.swap(i, j);
            neigh.push(("two symbols swapped", v));
        }
    }
    for (what, from) in [("adjacent pair swapped near the end", n), ("adjacent pair swapped in the second half", n / 2 + n / 4)] {
        if let Some(j) = (1..from.min(n)).rev().find(|&j| data[j] != data[j - 1]) {
            let mut v = data.clone();
            v.swap(j, j - 1);
            neigh.push((what, v));
        }
    }
    let mut v = data.clone();
    v.push(0);
    neigh.push(("symbol 0 appended", v));
    let qv0: QVector = data.iter().copied().collect();
    for (what, v) in neigh {
        let q2 = build_quad::<Q>(&v, rr.below(4) as u8);
        chk!(rep, "different sequence != ", (Q::NAME, what, n), Exp::Is(false), q2 == built[0]);
        // clone_from onto a value that held a different sequence
        let mut d = q2;
        if !chk!(rep, "clone_from", (Q::NAME, what, n), Exp::AnyVal, d.clone_from(&built[0])).is_panic() {
            chk!(rep, "clone_from == source", (Q::NAME, what, n), Exp::Is(true), d == built[0]);
            let mut r = rng.clone();
            let dd = quad_battery(rep, &d, &m, &mut r, &o);
            chk!(rep, "clone_from answers identically (digest)", (Q::NAME, what, n), Exp::Is(ds[0]), dd);
        }
        // the plain quad vector too
        let qv2: QVector = v.iter().copied().collect();
        chk!(rep, "different sequence != ", ("QVector", what, n), Exp::Is(false), qv2 == qv0);
    }
    // the underlying QVector: collect vs builder
    let qv: QVector = data.iter().copied().collect();
    let qv2: QVector = data.iter().map(|&x| x as u64 + 4).collect(); // only the two low bits count
    chk!(rep, "QVector collect<u8> == collect<u64 with high bits>", n, Exp::Is(true), qv == qv2);
    if n >= 2 {
        rep.nontrivial();
    }
}

fn run_bit_paths(rep: &mut Rep, spec: &BitSpec, budget: usize) {
    let bits = gen_bits(spec);
    let m = BitModel::new(bits.clone());
    let n = bits.len();
    let rng = Rng::new(spec.seed ^ 0xC19);
    let o = VecOpts { budget, unchecked: false, invalid: true };
    let bv: BitVector = bits.iter().copied().collect();
    // bool- and position-based constructors
    if bits.last() == Some(&true) || n == 0 {
        let from_pos: BitVector = m.ones.iter().copied().collect();
        chk!(rep, "BitVector bools == positions", n, Exp::Is(true), from_pos == bv);
        let from_pos_mut: BitVectorMut = m.ones.iter().copied().collect();
        let from_bools_mut: BitVectorMut = bits.iter().copied().collect();
        chk!(rep, "BitVectorMut bools == positions", n, Exp::Is(true), from_pos_mut == from_bools_mut);
        chk!(rep, "BitVector::from(BitVectorMut positions) == bools", n, Exp::Is(true), BitVector::from(from_pos_mut) == bv);
    }
    chk!(rep, "BitVector clone ==", n, Exp::Is(true), bv.clone() == bv);
    macro_rules! rs {
        ($t:ty, $name:expr) => {{
            let a = <$t>::new(bv.clone());
            let b = <$t>::from(bv.clone());
            let c = <$t>::new(BitVector::from(bits.iter().copied().collect::<BitVectorMut>()));
            let fresh = a.clone();
            chk!(rep, "paths compare equal", ($name, "new/from", n), Exp::Is(true), a == b);
            let mut r1 = rng.clone();
            let mut r2 = rng.clone();
            // `a` answers queries; b, c and the clone taken before have not: equality must not care
            let d1 = bin_battery(rep, &a, &m, &mut r1, &o);
            chk!(rep, "queried value == never-queried value built by another path", ($name, "new/from", n), Exp::Is(true), a == b);
            chk!(rep, "queried value == never-queried value built by another path", ($name, "new/via BitVectorMut", n), Exp::Is(true), a == c);
            chk!(rep, "queried value == its never-queried clone", ($name, n), Exp::Is(true), a == fresh);
            chk!(rep, "clone == original", ($name, n), Exp::Is(true), a.clone() == a);
            let d2 = bin_battery(rep, &b, &m, &mut r2, &o);
            chk!(rep, "paths answer identically (digest)", ($name, n), Exp::Is(d1), d2);
            for (what, v) in neighbours(&bits, spec.seed) {
                let x = <$t>::new(v.iter().copied().collect());
                chk!(rep, "different sequence != ", ($name, what, n), Exp::Is(false), x == a);
                let mut d = x;
                if !chk!(rep, "clone_from", ($name, what, n), Exp::AnyVal, d.clone_from(&a)).is_panic() {
                    chk!(rep, "clone_from == source", ($name, what, n), Exp::Is(true), d == a);
                    let mut r3 = rng.clone();
                    let d3 = bin_battery(rep, &d, &m, &mut r3, &o);
                    chk!(rep, "clone_from answers identically (digest)", ($name, what, n), Exp::Is(d1), d3);
                }
            }
        }};
    }
    rs!(qwt::RSNarrow, "RSNarrow");
    rs!(qwt::RSWide, "RSWide");
    macro_rules! da {
        ($s0:expr, $name:expr) => {{
            let a = DArray::<$s0>::new(bv.clone());
            let b: DArray<$s0> = bits.iter().copied().collect();
            chk!(rep, "paths compare equal", ($name, "new/collect<bool>", n), Exp::Is(true), a == b);
            if bits.last() == Some(&true) || n == 0 {
                let c: DArray<$s0> = m.ones.iter().copied().collect();
                chk!(rep, "paths compare equal", ($name, "new/collect<usize>", n), Exp::Is(true), a == c);
            }
            let fresh = a.clone();
            let mut r1 = rng.clone();
            let mut r2 = rng.clone();
            let d1 = darray_battery(rep, &a, &m, &mut r1, &o);
            chk!(rep, "queried value == never-queried value built by another path", ($name, n), Exp::Is(true), a == b);
            chk!(rep, "queried value == its never-queried clone", ($name, n), Exp::Is(true), a == fresh);
            chk!(rep, "clone == original", ($name, n), Exp::Is(true), a.clone() == a);
            let d2 = darray_battery(rep, &b, &m, &mut r2, &o);
            chk!(rep, "paths answer identically (digest)", ($name, n), Exp::Is(d1), d2);
            for (what, v) in neighbours(&bits, spec.seed) {
                let x = DArray::<$s0>::new(v.iter().copied().collect());
                chk!(rep, "different sequence != ", ($name, what, n), Exp::Is(false), x == a);
                let mut d = x;
                if !chk!(rep, "clone_from", ($name, what, n), Exp::AnyVal, d.clone_from(&a)).is_panic() {
                    chk!(rep, "clone_from == source", ($name, what, n), Exp::Is(true), d == a);
                    let mut r3 = rng.clone();
                    let d3 = darray_battery(rep, &d, &m, &mut r3, &o);
                    chk!(rep, "clone_from answers identically (digest)", ($name, what, n), Exp::Is(d1), d3);
                }
            }
        }};
    }
    da!(false, "DArray<false>");
    da!(true, "DArray<true>");
    for (what, v) in neighbours(&bits, spec.seed) {
        let x: BitVector = v.iter().copied().collect();
        chk!(rep, "different sequence != ", ("BitVector", what, n), Exp::Is(false), x == bv);
        let mut d = x;
        if !chk!(rep, "clone_from", ("BitVector", what, n), Exp::AnyVal, d.clone_from(&bv)).is_panic() {
            chk!(rep, "clone_from == source", ("BitVector", what, n), Exp::Is(true), d == bv);
        }
        let mut dm: BitVectorMut = v.iter().copied().collect();
        let src: BitVectorMut = bits.iter().copied().collect();
        if !chk!(rep, "clone_from", ("BitVectorMut", what, n), Exp::AnyVal, dm.clone_from(&src)).is_panic() {
            chk!(rep, "clone_from == source", ("BitVectorMut", what, n), Exp::Is(true), dm == src);
            chk!(rep, "clone_from, frozen == BitVector", ("BitVectorMut", what, n), Exp::Is(true), BitVector::from(dm) == bv);
        }
    }
    if n >= 2 {
        rep.nontrivial();
    }
}

fn neighbours(bits: &[bool], seed: u64) -> Vec<(&'static str, Vec<bool>)> {
    let mut rr = Rng::new(seed ^ 0x1919);
    let n = bits.len();
    let mut out = Vec::new();
    if n > 0 {
        let i = rr.usize_below(n);
        let mut v = bits.to_vec();
        v[i] = !v[i];
        out.push(("one bit flipped", v));
        let mut v = bits.to_vec();
        v[n - 1] = !v[n - 1];
        out.push(("last bit flipped", v));
        let mut v = bits.to_vec();
        v.pop();
        out.push(("last bit removed", v));
    }
    let mut v = bits.to_vec();
    v.push(false);
    out.push(("a zero appended", v));
    out
}

pub fn cases_c19(cfg: &Cfg) -> Vec<Case> {
    let mut rng = Rng::derive(cfg.seed, "c19", 0);
    let mut out = Vec::new();
    let budget = match (cfg.scale, cfg.tier) {
        (Scale::Tiny, _) => 40,
        (Scale::Mid, Tier::Quick) => 600,
        (Scale::Mid, Tier::Thorough) => 3000,
        (Scale::Full, Tier::Quick) => 2500,
        (Scale::Full, Tier::Thorough) => 10_000,
    };
    let aliases: Vec<&'static str> = PLAIN_QUAD.iter().chain(HUFF_QUAD.iter()).chain(BIN_TREES.iter()).copied().collect();
    let types: &[&'static str] = if cfg.scale == Scale::Tiny { &["u8", "u128"] } else { &["u8", "u16", "u32", "u64", "usize", "u128"] };
    for (ai, alias) in aliases.iter().enumerate() {
        let alias: &'static str = alias;
        let huff = alias.starts_with('H');
        let arity = if alias == "HWT" { 2 } else { 4 };
        for (ti, tname) in types.iter().enumerate() {
            let tname: &'static str = tname;
            if cfg.scale == Scale::Tiny && (ai + ti) % 2 == 1 {
                continue;
            }
            let bits = elem_bits(tname);
            let specs = if huff { huff_tree_specs(cfg.scale, cfg.tier, bits, arity, cfg.seed ^ 0x19) } else { plain_tree_specs(cfg.scale, cfg.tier, bits, cfg.seed ^ 0x19) };
            let k = if cfg.scale == Scale::Tiny { 40 } else if cfg.tier == Tier::Quick { 7 } else { 2 };
            for (j, spec) in specs.into_iter().enumerate() {
                if spec.n > 150_000 || (j != 0 && (j + ai + ti) % k != 0) {
                    continue;
                }
                let ty = format!("{}<{}>", alias, tname);
                let class = format!("{}|{}", ty, spec.class());
                let desc = J::obj().set("spec", spec.to_json());
                let w = spec.n as u64 * 4 + budget as u64 * 5;
                out.push(Case::new(ty, class, desc, w, move |rep: &mut Rep| {
                    with_tree!(alias, tname, run_tree_paths, rep, &spec, budget);
                }));
            }
        }
        // element widths: values that fit the narrowest type of the family
        let families: Vec<Vec<&'static str>> = if cfg.scale == Scale::Tiny {
            vec![vec!["u8", "u64"]]
        } else {
            vec![vec!["u8", "u16", "u32", "u64", "usize", "u128"], vec!["u16", "u32", "u128"], vec!["u64", "usize", "u128"]]
        };
        for (fi, fam) in families.into_iter().enumerate() {
            let narrow = elem_bits(fam[0]);
            let cap = if huff { type_max(narrow).min(1 << 16) } else { type_max(narrow) };
            let lens: Vec<usize> = if cfg.scale == Scale::Tiny { vec![90] } else { vec![0, 1, 700, 5000] };
            for n in lens {
                let alpha = match fi {
                    0 => Alpha::Holes { k: 40, max: cap },
                    1 => Alpha::Holes { k: 100, max: cap },
                    _ => {
                        if huff {
                            Alpha::Holes { k: 30, max: cap }
                        } else {
                            // values >= 2^32: u64 vs usize vs u128
                            Alpha::Holes { k: 30, max: (1u128 << 40) + 7 }
                        }
                    }
                };
                let spec = SeqSpec { n, alpha, dist: Dist::Zipf, layout: Layout::Iid, seed: rng.u64() };
                let class = format!("{}|widths{}|{}", alias, fi, spec.class());
                let desc = J::obj().set("spec", spec.to_json()).set("types", format!("{:?}", fam));
                let fam2 = fam.clone();
                out.push(Case::new(format!("{}<{}>", alias, fam.join("|")), class, desc, n as u64 * 8 + budget as u64 * 6, move |rep: &mut Rep| {
                    run_widths(rep, alias, &spec, budget, &fam2)
                }));
            }
        }
    }
    let qk = if cfg.scale == Scale::Tiny { 12 } else { 2 };
    for (j, spec) in quad_specs(cfg.scale, cfg.tier, cfg.seed ^ 0x19).into_iter().enumerate() {
        if j % qk != 0 || spec.n > 100_000 {
            continue;
        }
        for block in [256usize, 512] {
            let spec = spec.clone();
            let ty = if block == 256 { "RSQVector256" } else { "RSQVector512" };
            let class = format!("{}|{}", ty, spec.class());
            let desc = J::obj().set("spec", spec.to_json());
            let w = spec.n as u64 + budget as u64 * 4;
            out.push(Case::new(ty, class, desc, w, move |rep: &mut Rep| {
                if block == 256 {
                    run_quad_paths::<qwt::RSQVector256>(rep, &spec, budget)
                } else {
                    run_quad_paths::<qwt::RSQVector512>(rep, &spec, budget)
                }
            }));
        }
    }
    let bk = if cfg.scale == Scale::Tiny { 16 } else { 2 };
    for (j, spec) in bit_specs(cfg.scale, cfg.tier, cfg.seed ^ 0x19).into_iter().enumerate() {
        if j % bk != 0 || spec.n > 100_000 {
            continue;
        }
        let class = format!("bit structures|{}", spec.class());
        let desc = J::obj().set("spec", spec.to_json());
        let w = spec.n as u64 * 2 + budget as u64 * 8;
        out.push(Case::new("BitVector/RSNarrow/RSWide/DArray", class, desc, w, move |rep: &mut Rep| run_bit_paths(rep, &spec, budget)));
    }
    let _ = build_tree::<qwt::QWT256<u8>>;
    out
}
