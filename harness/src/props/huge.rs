//! Scale cases: structures over 10^8 symbols / bits built from a streaming, periodic input whose
//! rank/select have closed forms (so that no O(n) model is needed). They cross the thresholds no other
//! case reaches: more than 2^16 superblocks, more than 2^16 select samples of one symbol, positions and
//! counts above 2^27/2^28.

use crate::json::J;
use crate::prng::Rng;
use crate::report::{Cfg, Exp, Rep, Scale, Tier};
use crate::{chk, Case};
use qwt::{AccessBin, AccessQuad, AccessUnsigned, BitVector, DArray, RankBin, RankQuad, RankUnsigned, SelectBin, SelectQuad, SelectUnsigned, WTSupport};

/// quaternary pattern: runs of 8 equal symbols, period 32 (0^8 1^8 2^8 3^8 ...)
#[inline]
fn q_at(i: usize) -> u8 {
    ((i >> 3) & 3) as u8
}
fn q_rank(c: u8, i: usize) -> usize {
    let full = (i / 32) * 8;
    let r = i % 32;
    let lo = 8 * c as usize;
    full + r.saturating_sub(lo).min(8)
}
fn q_count(c: u8, n: usize) -> usize {
    q_rank(c, n)
}
fn q_select(c: u8, k: usize, n: usize) -> Option<usize> {
    if k >= q_count(c, n) {
        return None;
    }
    Some((k / 8) * 32 + 8 * c as usize + k % 8)
}

/// bit pattern: 16 zeros then 16 ones, period 32
#[inline]
fn b_at(i: usize) -> bool {
    (i >> 4) & 1 == 1
}
fn b_rank1(i: usize) -> usize {
    (i / 32) * 16 + (i % 32).saturating_sub(16)
}
fn b_select1(k: usize, n: usize) -> Option<usize> {
    if k >= b_rank1(n) {
        None
    } else {
        Some((k / 16) * 32 + 16 + k % 16)
    }
}
fn b_select0(k: usize, n: usize) -> Option<usize> {
    if k >= n - b_rank1(n) {
        None
    } else {
        Some((k / 16) * 32 + k % 16)
    }
}

fn probe_positions(n: usize, unit: usize, rng: &mut Rng, extra: usize) -> Vec<usize> {
    // around the 2^16-th unit (superblock / block), around 2^27 and 2^28, the ends, random ones
    let mut v = vec![0, 1, n / 2, n - 1, n, n.saturating_sub(unit), n.saturating_sub(unit + 1)];
    for base in [unit << 16, (unit << 16) + unit, unit << 15, 1usize << 27, 1usize << 28, (1usize << 27) + (1 << 26)] {
        for d in [-2i64, -1, 0, 1, 2, unit as i64 - 1, unit as i64, unit as i64 + 1] {
            let p = base as i64 + d;
            if p >= 0 && (p as usize) <= n {
                v.push(p as usize);
            }
        }
    }
    for _ in 0..extra {
        v.push(rng.usize_below(n + 1));
    }
    v.sort_unstable();
    v.dedup();
    v
}

fn run_huge_quad<Q: crate::adapters::QuadApi + FromIterator<u8>>(rep: &mut Rep, n: usize, seed: u64, extra: usize) {
    let mut rng = Rng::new(seed);
    let q: Q = (0..n).map(q_at).collect();
    rep.tick("build");
    chk!(rep, "len", n, Exp::Is(n), q.len_());
    let unit = Q::BLOCK * 8;
    let pos = probe_positions(n, unit, &mut rng, extra);
    for &i in &pos {
        if i < n {
            chk!(rep, "get", i, Exp::Is(Some(q_at(i))), q.get_(i));
        }
        for c in 0..4u8 {
            chk!(rep, "rank", (c, i), Exp::Is(Some(q_rank(c, i))), q.rank_(c, i));
        }
    }
    chk!(rep, "get", n, Exp::Is(None), q.get_(n));
    chk!(rep, "rank", (0, n + 1), Exp::Is(None), q.rank_(0, n + 1));
    for c in 0..4u8 {
        let cnt = q_count(c, n);
        chk!(rep, "occs", c, Exp::Is(Some(cnt)), q.occs_(c));
        // occurrence indices around multiples of the 8192 select sampling period far into the sequence,
        // around 2^16 samples, and the ends
        let mut ks = vec![0, 1, cnt - 1, cnt, cnt + 1, cnt / 2];
        for base in [8192usize << 12, (8192 << 12) + 8192, 8192 * 65535, 8192 * 65536, 1 << 24, 1 << 25, 1 << 26] {
            for d in [-1i64, 0, 1] {
                let k = base as i64 + d;
                if k >= 0 {
                    ks.push(k as usize);
                }
            }
        }
        for _ in 0..extra {
            ks.push(rng.usize_below(cnt));
        }
        for k in ks {
            let got = chk!(rep, "select", (c, k), Exp::Is(q_select(c, k, n)), q.select_(c, k));
            if let Some(Some(p)) = got.as_val() {
                // and back: rank at the selected position
                let p = *p;
                chk!(rep, "rank(select)", (c, k), Exp::Is(Some(k)), q.rank_(c, p));
            }
        }
    }
    rep.gate_max("huge_n", n as u64);
    rep.gate_max("huge_superblocks", (n / unit) as u64);
    rep.nontrivial();
}

fn run_huge_bits(rep: &mut Rep, which: &'static str, n: usize, seed: u64, extra: usize) {
    let mut rng = Rng::new(seed);
    let bv: BitVector = (0..n).map(b_at).collect();
    rep.tick("build");
    macro_rules! rs {
        ($s:expr) => {{
            let s = $s;
            for i in probe_positions(n, 4096, &mut rng, extra) {
                if i < n {
                    chk!(rep, "get", (which, i), Exp::Is(Some(b_at(i))), AccessBin::get(&s, i));
                }
                chk!(rep, "rank1", (which, i), Exp::Is(Some(b_rank1(i))), s.rank1(i));
                chk!(rep, "rank0", (which, i), Exp::Is(Some(i - b_rank1(i))), s.rank0(i));
            }
            let n1 = b_rank1(n);
            let n0 = n - n1;
            for (cnt, one) in [(n1, true), (n0, false)] {
                let mut ks = vec![0, 1, cnt - 1, cnt, cnt + 1, cnt / 2, 8192 * 4096, 8192 * 4096 + 1, 1024 * 65536 - 1, 1024 * 65536, 1024 * 65536 + 1, 1 << 26, (1 << 27) - 1, 1 << 27];
                for _ in 0..extra {
                    ks.push(rng.usize_below(cnt));
                }
                for k in ks {
                    if one {
                        chk!(rep, "select1", (which, k), Exp::Is(b_select1(k, n)), s.select1(k));
                    } else {
                        chk!(rep, "select0", (which, k), Exp::Is(b_select0(k, n)), s.select0(k));
                    }
                }
            }
        }};
    }
    match which {
        "RSWide" => rs!(qwt::RSWide::new(bv)),
        "RSNarrow" => rs!(qwt::RSNarrow::new(bv)),
        _ => {
            let d: DArray<true> = DArray::new(bv);
            let n1 = b_rank1(n);
            chk!(rep, "count_ones", which, Exp::Is(n1), d.count_ones());
            for (cnt, one) in [(n1, true), (n - n1, false)] {
                let mut ks = vec![0, 1, cnt - 1, cnt, cnt + 1, cnt / 2, 1024 * 65535, 1024 * 65536, 1024 * 65536 + 1, 32 * 65536, 32 * 65536 * 16 + 5, 1 << 26, 1 << 27];
                for _ in 0..extra {
                    ks.push(rng.usize_below(cnt));
                }
                for k in ks {
                    if one {
                        chk!(rep, "select1", (which, k), Exp::Is(b_select1(k, n)), d.select1(k));
                    } else {
                        chk!(rep, "select0", (which, k), Exp::Is(b_select0(k, n)), d.select0(k));
                    }
                }
            }
            for i in [0usize, n - 1, n, 1 << 28, (1 << 28) + 17] {
                let exp = if i < n { Some(b_at(i)) } else { None };
                chk!(rep, "get", (which, i), Exp::Is(exp), AccessBin::get(&d, i));
            }
        }
    }
    rep.gate_max("huge_n", n as u64);
    rep.nontrivial();
}

/// a 2-level quad wavelet tree over 1.4e8 symbols: s[i] = 4 * q_at(i) + q_at(i / 32 * 8 ...) is awkward to
/// invert, so the tree uses a product pattern with closed-form rank: symbol = 4*a + b with a = (i>>3)&3 and
/// b = (i>>5)&3, period 128
fn t_at(i: usize) -> u8 {
    (4 * ((i >> 3) & 3) + ((i >> 5) & 3)) as u8
}
fn t_rank(c: u8, i: usize) -> usize {
    // within a period of 128 positions, symbol 4a+b occupies the 8 positions b*32 + a*8 .. +8
    let (a, b) = ((c >> 2) as usize, (c & 3) as usize);
    let start = b * 32 + a * 8;
    (i / 128) * 8 + (i % 128).saturating_sub(start).min(8)
}
fn t_select(c: u8, k: usize, n: usize) -> Option<usize> {
    if k >= t_rank(c, n) {
        return None;
    }
    let (a, b) = ((c >> 2) as usize, (c & 3) as usize);
    Some((k / 8) * 128 + b * 32 + a * 8 + k % 8)
}

fn run_huge_tree(rep: &mut Rep, n: usize, seed: u64, extra: usize) {
    let mut rng = Rng::new(seed);
    let data: Vec<u8> = (0..n).map(t_at).collect();
    let t = qwt::QWT256Pfs::<u8>::from(data);
    rep.tick("build");
    chk!(rep, "len", n, Exp::Is(n), t.len());
    for i in probe_positions(n, 2048, &mut rng, extra) {
        if i < n {
            chk!(rep, "get", i, Exp::Is(Some(t_at(i))), t.get(i));
        }
        for c in [0u8, 5, 10, 15, 3, 12] {
            chk!(rep, "rank", (c, i), Exp::Is(Some(t_rank(c, i))), t.rank(c, i));
            chk!(rep, "rank_prefetch", (c, i), Exp::Is(Some(t_rank(c, i))), t.rank_prefetch(c, i));
        }
    }
    for c in 0..16u8 {
        let cnt = t_rank(c, n);
        let mut ks = vec![0, 1, cnt - 1, cnt, cnt / 2, 8192 * 512, 8192 * 512 + 1, (1 << 23) - 1, 1 << 23];
        for _ in 0..extra / 4 {
            ks.push(rng.usize_below(cnt));
        }
        for k in ks {
            chk!(rep, "select", (c, k), Exp::Is(t_select(c, k, n)), t.select(c, k));
        }
    }
    chk!(rep, "rank", (16, 0), Exp::Is(None), t.rank(16, 0));
    rep.gate_max("huge_n", n as u64);
    rep.nontrivial();
}

/// very long, very sparse inputs: a handful of occurrences spread over more than 2^13 superblocks /
/// 2^24 positions (two consecutive select samples / hints far apart). Explicit occurrence list = oracle.
fn sparse_positions(n: usize, seed: u64) -> Vec<usize> {
    let mut rng = Rng::new(seed);
    let mut v: Vec<usize> = vec![7, 100_020, n - 5];
    let mut p = 200_000usize;
    while p + 10 < n {
        // not on the first position of a 4096-block, mostly in its first part
        v.push(p - p % 4096 + 1 + rng.usize_below(3000));
        p += 90_000 + rng.usize_below(40_000);
    }
    v.sort_unstable();
    v.dedup();
    v.retain(|&x| x < n);
    v
}

fn run_sparse_quad<Q: crate::adapters::QuadApi + FromIterator<u8>>(rep: &mut Rep, n: usize, seed: u64) {
    let occ3 = sparse_positions(n, seed);
    // symbol 3 at the sparse positions, symbol 1 twice, everything else 0
    let occ1 = [n / 3, n / 3 + 1];
    let mut it3 = occ3.iter().copied().peekable();
    let q: Q = (0..n)
        .map(|i| {
            if it3.peek() == Some(&i) {
                it3.next();
                3u8
            } else if i == occ1[0] || i == occ1[1] {
                1
            } else {
                0
            }
        })
        .collect();
    rep.tick("build");
    chk!(rep, "occs", 3, Exp::Is(Some(occ3.len())), q.occs_(3));
    for (k, &p) in occ3.iter().enumerate() {
        chk!(rep, "select", (3, k), Exp::Is(Some(p)), q.select_(3, k));
        chk!(rep, "rank", (3, p), Exp::Is(Some(k)), q.rank_(3, p));
        chk!(rep, "rank", (3, p + 1), Exp::Is(Some(k + 1)), q.rank_(3, p + 1));
        chk!(rep, "get", p, Exp::Is(Some(3)), q.get_(p));
    }
    chk!(rep, "select", (3, occ3.len()), Exp::Is(None), q.select_(3, occ3.len()));
    chk!(rep, "select", (1, 0), Exp::Is(Some(occ1[0])), q.select_(1, 0));
    chk!(rep, "select", (1, 1), Exp::Is(Some(occ1[1])), q.select_(1, 1));
    chk!(rep, "select", (1, 2), Exp::Is(None), q.select_(1, 2));
    chk!(rep, "select", (2, 0), Exp::Is(None), q.select_(2, 0));
    // symbol 0: everything else
    let zeros_before = |i: usize| i - occ3.partition_point(|&p| p < i) - occ1.iter().filter(|&&p| p < i).count();
    for &i in &[1usize, n / 2, n - 1, n] {
        chk!(rep, "rank", (0, i), Exp::Is(Some(zeros_before(i))), q.rank_(0, i));
    }
    let z = zeros_before(n);
    chk!(rep, "select", (0, z - 1), Exp::Pred("a position < n", Box::new(move |r: &Option<usize>| matches!(r, Some(p) if *p < n))), q.select_(0, z - 1));
    chk!(rep, "select", (0, z), Exp::Is(None), q.select_(0, z));
    rep.gate_max("sparse_huge_n", n as u64);
    rep.nontrivial();
}

fn run_sparse_bits(rep: &mut Rep, which: &'static str, n: usize, seed: u64, complement: bool) {
    let occ = sparse_positions(n, seed);
    let mut it = occ.iter().copied().peekable();
    let bv: BitVector = (0..n)
        .map(|i| {
            let hit = if it.peek() == Some(&i) {
                it.next();
                true
            } else {
                false
            };
            hit != complement
        })
        .collect();
    rep.tick("build");
    macro_rules! go {
        ($s:expr, $has_rank:expr) => {{
            let s = $s;
            for (k, &p) in occ.iter().enumerate() {
                if complement {
                    chk!(rep, "select0", (which, k), Exp::Is(Some(p)), s.select0(k));
                } else {
                    chk!(rep, "select1", (which, k), Exp::Is(Some(p)), s.select1(k));
                }
            }
            if complement {
                chk!(rep, "select0", (which, occ.len()), Exp::Is(None), s.select0(occ.len()));
                chk!(rep, "select1", (which, n - occ.len() - 1), Exp::Pred("a position < n", Box::new(move |r: &Option<usize>| matches!(r, Some(p) if *p < n))), s.select1(n - occ.len() - 1));
                chk!(rep, "select1", (which, n - occ.len()), Exp::Is(None), s.select1(n - occ.len()));
            } else {
                chk!(rep, "select1", (which, occ.len()), Exp::Is(None), s.select1(occ.len()));
                chk!(rep, "select0", (which, n - occ.len() - 1), Exp::Pred("a position < n", Box::new(move |r: &Option<usize>| matches!(r, Some(p) if *p < n))), s.select0(n - occ.len() - 1));
                chk!(rep, "select0", (which, n - occ.len()), Exp::Is(None), s.select0(n - occ.len()));
            }
        }};
    }
    match which {
        "RSWide" => {
            let s = qwt::RSWide::new(bv);
            for (k, &p) in occ.iter().enumerate().step_by(7) {
                let e = if complement { p - k } else { k };
                chk!(rep, "rank1", (which, p), Exp::Is(Some(e)), s.rank1(p));
            }
            go!(s, true)
        }
        "RSNarrow" => {
            let s = qwt::RSNarrow::new(bv);
            for (k, &p) in occ.iter().enumerate().step_by(7) {
                let e = if complement { p - k } else { k };
                chk!(rep, "rank1", (which, p), Exp::Is(Some(e)), s.rank1(p));
            }
            go!(s, true)
        }
        _ => go!(DArray::<true>::new(bv), false),
    }
    rep.gate_max("sparse_huge_n", n as u64);
    rep.nontrivial();
}

/// more than 2^32 zeros (a 32-bit counter anywhere in the construction or in the select hints wraps):
/// 4.4e9 bits, ones at ~1000 explicit positions. Thorough tier only (550 MB, ~30 s).
fn run_giant_bits(rep: &mut Rep, which: &'static str, seed: u64) {
    let n: usize = (1usize << 32) + (1 << 27) + 333;
    let mut rng = Rng::new(seed);
    let mut occ: Vec<usize> = vec![5, (1 << 32) - 1, 1 << 32, (1 << 32) + 1, n - 2];
    let mut p = 1usize << 20;
    while p < n - 10 {
        occ.push(p + rng.usize_below(1 << 19));
        p += (1 << 22) + rng.usize_below(1 << 20);
    }
    occ.sort_unstable();
    occ.dedup();
    let mut it = occ.iter().copied().peekable();
    let bv: BitVector = (0..n)
        .map(|i| {
            if it.peek() == Some(&i) {
                it.next();
                true
            } else {
                false
            }
        })
        .collect();
    rep.tick("build");
    // position of the k-th zero
    let zero_at = |k: usize| -> usize {
        let mut p = k;
        loop {
            let ones = occ.partition_point(|&o| o <= p);
            if p - ones == k && !occ.binary_search(&p).is_ok() {
                return p;
            }
            p = k + ones + usize::from(occ.binary_search(&(k + ones)).is_ok());
        }
    };
    let n0 = n - occ.len();
    let ks = [0usize, 1, 4, 5, 6, 1 << 20, (1 << 31) - 1, 1 << 31, (1 << 32) - 8200, (1 << 32) - 1024, (1 << 32) - 2, (1 << 32) - 1, 1 << 32, (1 << 32) + 1, (1 << 32) + 1023, (1 << 32) + 1024, (1 << 32) + 8192, (1 << 32) + (1 << 26), n0 - 1];
    macro_rules! go {
        ($s:expr) => {{
            let s = $s;
            chk!(rep, "n_ones", which, Exp::Is(occ.len()), s.n_ones());
            chk!(rep, "n_zeros", which, Exp::Is(n0), s.n_zeros());
            for &k in &ks {
                chk!(rep, "select0", (which, k), Exp::Is(Some(zero_at(k))), s.select0(k));
            }
            chk!(rep, "select0", (which, n0), Exp::Is(None), s.select0(n0));
            for (k, &p) in occ.iter().enumerate() {
                chk!(rep, "select1", (which, k), Exp::Is(Some(p)), s.select1(k));
                if k % 16 == 0 {
                    chk!(rep, "rank1", (which, p), Exp::Is(Some(k)), s.rank1(p));
                    chk!(rep, "rank0", (which, p), Exp::Is(Some(p - k)), s.rank0(p));
                }
            }
            chk!(rep, "rank1", (which, n), Exp::Is(Some(occ.len())), s.rank1(n));
            chk!(rep, "rank1", (which, n + 1), Exp::Is(None), s.rank1(n + 1));
        }};
    }
    if which == "RSWide" {
        go!(qwt::RSWide::new(bv))
    } else {
        go!(qwt::RSNarrow::new(bv))
    }
    rep.gate_max("giant_n", n as u64);
    rep.nontrivial();
}

/// scale cases of one property ("C01", "C05", "C06", "C07"); empty for the other lanes than `rel`
pub fn huge_cases(cfg: &Cfg, prop: &str) -> Vec<Case> {
    let mut out = Vec::new();
    if cfg.rep > 1 {
        // scale cases are not replicated by --reps beyond one extra seed
        return out;
    }
    let mut rng = Rng::derive(cfg.seed, "huge", 0);
    // very long and very sparse inputs also run with debug assertions (lanes rel and dbg)
    if cfg.lane == "rel" || cfg.lane == "dbg" {
        let n = (1usize << 25) + (1 << 21) + 4321;
        match prop {
            "C05" => {
                for ty in ["RSQVector256", "RSQVector512"] {
                    let seed = rng.u64();
                    let desc = J::obj().set("pattern", "symbol 3 at ~300 explicit positions over 3.5e7 symbols, symbol 1 twice, rest 0").set("n", n).set("seed", seed);
                    out.push(Case::new(ty, format!("{}|huge-sparse", ty), desc, n as u64 / 4, move |rep: &mut Rep| {
                        if ty == "RSQVector256" {
                            run_sparse_quad::<qwt::RSQVector256>(rep, n, seed)
                        } else {
                            run_sparse_quad::<qwt::RSQVector512>(rep, n, seed)
                        }
                    }));
                }
            }
            "C06" | "C07" => {
                let which: &[&'static str] = if prop == "C06" { &["RSWide", "RSNarrow"] } else { &["DArray<true>"] };
                for &w in which {
                    for complement in [false, true] {
                        let seed = rng.u64();
                        let desc = J::obj().set("pattern", "~300 explicit positions over 3.5e7 bits").set("n", n).set("seed", seed).set("complement", complement);
                        out.push(Case::new(w, format!("{}|huge-sparse|c{}", w, complement as u8), desc, n as u64 / 4, move |rep: &mut Rep| {
                            run_sparse_bits(rep, w, n, seed, complement)
                        }));
                    }
                }
            }
            _ => {}
        }
    }
    if cfg.scale != Scale::Full || cfg.lane != "rel" {
        return out;
    }
    let extra = if cfg.tier == Tier::Thorough { 4000 } else { 300 };
    match prop {
        "C05" => {
            for (ty, n) in [("RSQVector256", (2048usize << 16) + 70_001), ("RSQVector512", (4096usize << 16) + 70_001)] {
                let seed = rng.u64();
                let desc = J::obj().set("pattern", "runs of 8 equal symbols, period 32 (closed-form oracle)").set("n", n).set("seed", seed);
                out.push(Case::new(ty, format!("{}|huge", ty), desc, n as u64 / 2, move |rep: &mut Rep| {
                    if ty == "RSQVector256" {
                        run_huge_quad::<qwt::RSQVector256>(rep, n, seed, extra)
                    } else {
                        run_huge_quad::<qwt::RSQVector512>(rep, n, seed, extra)
                    }
                }));
            }
        }
        "C06" | "C07" => {
            if prop == "C06" && cfg.tier == Tier::Thorough && cfg.rep == 0 {
                for w in ["RSNarrow", "RSWide"] {
                    let seed = rng.u64();
                    let desc = J::obj().set("pattern", "4.4e9 bits, ~1000 ones at explicit positions: more than 2^32 zeros").set("seed", seed);
                    out.push(Case::new(w, format!("{}|giant", w), desc, 1u64 << 34, move |rep: &mut Rep| run_giant_bits(rep, w, seed)));
                }
            }
            let which: &[&'static str] = if prop == "C06" { &["RSWide", "RSNarrow"] } else { &["DArray<true>"] };
            for &w in which {
                let n = (4096usize << 16) + (1 << 25) + 12_345; // > 2^16 superblocks of 4096 bits, > 2^28 bits
                let seed = rng.u64();
                let desc = J::obj().set("pattern", "16 zeros, 16 ones, period 32 (closed-form oracle)").set("n", n).set("seed", seed);
                out.push(Case::new(w, format!("{}|huge", w), desc, n as u64 / 2, move |rep: &mut Rep| run_huge_bits(rep, w, n, seed, extra)));
            }
        }
        "C01" => {
            if cfg.tier == Tier::Thorough {
                let n = (2048usize << 16) + 9_001;
                let seed = rng.u64();
                let desc = J::obj().set("pattern", "16 symbols, runs of 8, period 128 (closed-form oracle)").set("n", n).set("seed", seed);
                out.push(Case::new("QWT256Pfs<u8>", "QWT256Pfs<u8>|huge", desc, n as u64 * 2, move |rep: &mut Rep| run_huge_tree(rep, n, seed, extra)));
            }
        }
        _ => {}
    }
    out
}
