//! C09: prefetching never changes an answer or causes a fault.
//!
//! (a) equality: rank_prefetch == rank == model on all eight quad tree types, including a dense
//!     sweep over the last sampling period of level 0 for every symbol;
//! (b) feature differential: the same seeded workload runs in the lanes `rel` (feature on) and
//!     `nopf` (feature off); every case emits a digest of all its answers and the orchestrator
//!     requires the digests to be equal across the two lanes (and each equals the model);
//! (c) no fault: the same workload and direct prefetch calls with arbitrary positions run under
//!     ASan and Miri (the estimates are never dereferenced).

use crate::adapters::*;
use crate::battery::{rank_expectation, tree_battery, BatOpts, Digest};
use crate::gen::*;
use crate::json::J;
use crate::model::SeqModel;
use crate::prng::Rng;
use crate::report::{Cfg, Exp, Rep, Scale, Tier};
use crate::{chk, with_tree, Case};

fn run_prefetch_case<Tr: TreeApi>(rep: &mut Rep, spec: &SeqSpec, tie: u64, budget: usize, sweep: usize) {
    let raw = gen_seq(spec, <Tr::Item as Sym>::BITS);
    let data: Vec<Tr::Item> = raw.iter().map(|&x| <Tr::Item as Sym>::from_u128(x)).collect();
    let m = SeqModel::new(raw);
    if Tr::KIND.is_huff() {
        qwt::verif::set_tie_seed(Some(tie));
    }
    let t = crate::props::trees::guarded_build::<Tr>(rep, &data, (tie % 3) as u8);
    if Tr::KIND.is_huff() {
        qwt::verif::set_tie_seed(None);
    }
    let Some(t) = t else { return };
    crate::props::trees::observe_codes::<Tr>(rep);
    let mut rng = Rng::new(spec.seed ^ 0xC09);
    let mut o = BatOpts::new(budget);
    o.prefetch = true;
    o.iter = false;
    let mut dg: Digest = tree_battery(rep, &t as &dyn DynTree<Tr::Item>, &m, &mut rng, &o);

    // dense sweep: every position of the last sampling period(s) of level 0, every symbol
    let n = m.len();
    // moderate inputs are swept at EVERY position (this hits, for every level and digit, the exact
    // positions of the sampled occurrences, where the estimate overshoots the real position across a
    // sampling-period boundary); long inputs over the last sampling period(s)
    let full_sweep = sweep >= 2048 && n <= 30_000;
    let lo = if full_sweep { 0 } else { n.saturating_sub(n % 2048 + sweep) };
    let sym_cap = if full_sweep { 16 } else { 48 };
    let syms: Vec<u128> = if m.syms.len() <= sym_cap { m.syms.clone() } else { (0..sym_cap).map(|_| *rng.pick(&m.syms)).collect() };
    if full_sweep {
        rep.gate_add("full_position_sweeps", 1);
    }
    let lens = t.level_lens();
    for &c in &syms {
        let cs = <Tr::Item as Sym>::from_u128(c);
        for i in lo..=n {
            let exp = rank_expectation(Tr::KIND, &m, c, i);
            let r = chk!(rep, "rank", (c, i), exp, t.rank_(cs, i));
            let exp = match rank_expectation(Tr::KIND, &m, c, i) {
                Exp::Is(x) => Exp::Is(Some(x)),
                Exp::Either(a, b) => Exp::Either(Some(a), Some(b)),
                _ => unreachable!(),
            };
            let rp = chk!(rep, "rank_prefetch", (c, i), exp, t.rank_prefetch_(cs, i));
            // and the two must agree with each other whatever the model says
            if let (Some(a), Some(Some(b))) = (r.as_val(), rp.as_val()) {
                if a != b {
                    rep.viol("rank_prefetch==rank", format!("({}, {})", c, i), format!("{:?}", a), format!("{:?}", b), "wrong_value".into());
                }
                dg.add_opt(9, a.map(|x| x as u128));
            }
        }
    }
    rep.tick_n("sweep_positions", ((n - lo + 1) * syms.len()) as u64);
    // gate: a Huffman tree with prefetch support whose levels have >= 3 pairwise different
    // lengths, each longer than 3 sampling periods, swept over a whole sampling period
    if Tr::KIND.is_huff() && Tr::PFS && sweep >= 2048 {
        let mut d: Vec<usize> = lens.iter().copied().filter(|&l| l > 3 * 2048).collect();
        d.sort_unstable();
        d.dedup();
        rep.gate_max("huff_pfs_distinct_long_level_lengths", d.len() as u64);
    }
    if Tr::PFS {
        rep.gate_max("pfs_sampling_periods", (n / 2048) as u64);
    }
    rep.gate_max("max_levels_prefetched", lens.len() as u64);
    rep.note("digest", J::Str(format!("{:016x}", dg.0)));
    if n >= 2 {
        rep.nontrivial();
    }
}

/// direct prefetch calls with arbitrary positions: nothing may be dereferenced
fn run_raw_prefetch(rep: &mut Rep, seed: u64, n: usize) {
    let mut rng = Rng::new(seed);
    let quads: Vec<u8> = (0..n).map(|_| rng.below(4) as u8).collect();
    let bits: Vec<bool> = (0..n).map(|_| rng.bool()).collect();
    let r256 = qwt::RSQVector256::new(&quads);
    let r512 = qwt::RSQVector512::new(&quads);
    let bv: qwt::BitVector = bits.iter().copied().collect();
    let rsw = qwt::RSWide::new(bv.clone());
    let words: Vec<u64> = (0..(n / 64 + 1)).map(|_| rng.u64()).collect();
    let empty: Vec<u128> = Vec::new();
    let mut pos: Vec<usize> = vec![0, 1, n.saturating_sub(1), n, n + 1, n + 255, n + 256, n + 2048, n + 4096, 3 * n, 1 << 20, 1 << 43, 1 << 62, 1 << 63, usize::MAX, usize::MAX - 1, usize::MAX / 2, usize::MAX / 64];
    for _ in 0..40 {
        pos.push(rng.u64() as usize);
        pos.push(rng.usize_below(4 * n + 10));
    }
    for &p in &pos {
        chk!(rep, "RSQVector256::prefetch_info", p, Exp::AnyVal, r256.prefetch_info_(p));
        chk!(rep, "RSQVector256::prefetch_data", p, Exp::AnyVal, r256.prefetch_data_(p));
        chk!(rep, "RSQVector512::prefetch_info", p, Exp::AnyVal, r512.prefetch_info_(p));
        chk!(rep, "RSQVector512::prefetch_data", p, Exp::AnyVal, r512.prefetch_data_(p));
        chk!(rep, "RSWide::prefetch_info", p, Exp::AnyVal, rsw.prefetch_info(p));
        chk!(rep, "RSWide::prefetch_data", p, Exp::AnyVal, rsw.prefetch_data(p));
        chk!(rep, "BitVector::prefetch_line", p, Exp::AnyVal, bv.prefetch_line(p));
        chk!(rep, "utils::prefetch_read_NTA<u64>", p, Exp::AnyVal, qwt::utils::prefetch_read_NTA(&words, p));
        chk!(rep, "utils::prefetch_read_NTA<empty u128>", p, Exp::AnyVal, qwt::utils::prefetch_read_NTA(&empty, p));
    }
    // the structures still answer correctly afterwards
    let ones = bits.iter().filter(|&&b| b).count();
    chk!(rep, "RSWide::n_ones after prefetch", n, Exp::Is(ones), rsw.n_ones());
    chk!(rep, "RSQVector256::len after prefetch", n, Exp::Is(n), r256.len());
    rep.gate_add("raw_prefetch_calls", 9 * pos.len() as u64);
    rep.nontrivial();
}

pub fn cases_c09(cfg: &Cfg) -> Vec<Case> {
    let mut rng = Rng::derive(cfg.seed, "c09", 0);
    let mut out = Vec::new();
    let (lens, budget, sweep): (Vec<usize>, usize, usize) = match (cfg.scale, cfg.tier) {
        (Scale::Tiny, Tier::Quick) => (vec![2048], 16, 6),
        (Scale::Tiny, Tier::Thorough) => (vec![2048, 4300], 40, 24),
        (Scale::Mid, Tier::Quick) => (vec![2048, 2049, 8192, 26_000], 1500, 2048),
        (Scale::Mid, Tier::Thorough) => (vec![2048, 2049, 4096, 9000, 26_000, 70_001], 4000, 2048),
        (Scale::Full, Tier::Quick) => (vec![2047, 2048, 2049, 4096, 9000, 26_624, 70_001], 6000, 2048 + 300),
        (Scale::Full, Tier::Thorough) => (vec![2047, 2048, 2049, 4096, 4097, 6144, 9000, 26_624, 70_001, 300_000], 20_000, 2 * 2048 + 300),
    };
    let aliases: Vec<&'static str> = PLAIN_QUAD.iter().chain(HUFF_QUAD.iter()).copied().collect();
    let types: &[&'static str] = if cfg.scale == Scale::Tiny { &["u8", "u16"] } else { &["u8", "u16", "u32", "u64", "usize", "u128"] };
    for (ai, alias) in aliases.iter().enumerate() {
        let alias: &'static str = alias;
        let huff = alias.starts_with('H');
        if cfg.scale == Scale::Tiny && cfg.tier == Tier::Quick && !alias.ends_with("Pfs") {
            continue; // interpreters, quick tier: the four types with prefetch support only
        }
        // alphabets by number of levels: 3 .. 9 levels for plain trees
        let alphas: Vec<(Alpha, Dist)> = if huff {
            vec![
                (Alpha::Dense(22), Dist::Geometric(2.0)),
                (Alpha::Dense(64), Dist::Zipf),
                (Alpha::Dense(7), Dist::Dominant),
                (Alpha::Dense(200), Dist::Geometric(1.3)),
                (Alpha::Holes { k: 30, max: 250 }, Dist::Random),
                (Alpha::Dense(16), Dist::Exact(deep_code_weights(4, 5))),
                // counts 8:4:2:1:1 (scaled): the deeper levels hold exact fractions of the sequence, so
                // their lengths are exact multiples of the 2048-symbol sampling period
                (Alpha::Dense(5), Dist::Exact(vec![8, 4, 2, 1, 1])),
                (Alpha::Dense(13), Dist::Exact(vec![2048, 1024, 512, 256, 128, 64, 32, 16, 8, 4, 2, 1, 1])),
                (Alpha::Dense(25), Dist::Exact(deep_code_weights(4, 8))),
            ]
        } else {
            vec![
                (Alpha::Dense(64), Dist::Uniform),
                (Alpha::Dense(200), Dist::Zipf),
                (Alpha::Dense(256), Dist::Uniform),
                (Alpha::Holes { k: 60, max: 1023 }, Dist::Geometric(1.2)),
                (Alpha::Holes { k: 40, max: (1 << 16) - 1 }, Dist::Random),
                (Alpha::Holes { k: 30, max: (1 << 18) - 1 }, Dist::Dominant),
            ]
        };
        let layouts = [Layout::Iid, Layout::FreqAfterRare, Layout::RareFirst, Layout::Blocks(3000), Layout::Sorted, Layout::RareLast];
        let mut k = ai;
        for (li, &n) in lens.iter().enumerate() {
            for (xi, (alpha, dist)) in alphas.iter().enumerate() {
                if cfg.scale == Scale::Tiny && xi != (ai + li) % alphas.len().min(if cfg.tier == Tier::Quick { 3 } else { 99 }) {
                    continue;
                }
                if cfg.scale == Scale::Mid && (xi + ai + li) % 2 == 1 {
                    continue;
                }
                let tname: &'static str = types[k % types.len()];
                k += 1;
                let bits = elem_bits(tname);
                // the alphabet must fit the element type
                let alpha = match alpha {
                    Alpha::Holes { k, max } if *max > type_max(bits) => Alpha::Holes { k: (*k).min(200), max: type_max(bits) },
                    Alpha::Dense(sz) if *sz as u128 > type_max(bits).saturating_add(1) => Alpha::Dense(256),
                    a => a.clone(),
                };
                let (n_eff, dist) = match dist {
                    Dist::Exact(w) => {
                        // scale the exact profile up so that the sequence is long enough
                        let base: u64 = w.iter().sum();
                        let mut f = (n as u64 / base).max(1);
                        if base.is_power_of_two() {
                            // keep every level length an exact multiple of the sampling period
                            f = f.next_power_of_two().max((2048 * 4 / base).max(1));
                        }
                        let w2: Vec<u64> = w.iter().map(|x| x * f).collect();
                        (w2.iter().sum::<u64>() as usize, Dist::Exact(w2))
                    }
                    d => (n, d.clone()),
                };
                let spec = SeqSpec { n: n_eff, alpha, dist, layout: layouts[(xi + li + ai) % layouts.len()].clone(), seed: rng.u64() };
                let tie = rng.u64();
                let ty = format!("{}<{}>", alias, tname);
                let class = format!("{}|{}", ty, spec.class());
                let desc = J::obj().set("spec", spec.to_json()).set("tie_seed", tie).set("budget", budget).set("sweep", sweep);
                let w = (n_eff as u64 / 4 + (sweep as u64 + 100) * 60 + budget as u64) * 2;
                out.push(Case::new(ty, class, desc, w, move |rep: &mut Rep| {
                    with_tree!(alias, tname, run_prefetch_case, rep, &spec, tie, budget, sweep);
                }));
            }
        }
    }
    // sample-aligned inputs: a contiguous block of 2048*m "rare" symbols that starts at position `lead`, so
    // that the (2048*m)-th occurrence of their common first digit sits exactly on / next to a multiple of
    // the sampling period
    if cfg.scale != Scale::Tiny {
        for (ai, alias) in ["HQWT256Pfs", "HQWT512Pfs", "QWT256Pfs", "QWT512Pfs", "HQWT256"].into_iter().enumerate() {
            for (vi, (lead, rare_each, m_top)) in [(1usize, 512u64, 3usize), (0, 512, 3), (2, 1024, 3), (1, 2048, 1), (2049, 512, 2)].into_iter().enumerate() {
                if cfg.scale == Scale::Mid && (ai + vi) % 2 == 1 {
                    continue;
                }
                let mut w: Vec<u64> = vec![rare_each; 4];
                for k in 0..m_top {
                    w.push(3000 + lead as u64 + k as u64);
                }
                let tname = types[(ai + vi) % types.len()];
                let spec = SeqSpec {
                    n: w.iter().sum::<u64>() as usize,
                    alpha: Alpha::Explicit(vec![0, 1, 2, 3, 10, 11, 12][..w.len()].to_vec()),
                    dist: Dist::Exact(w),
                    layout: Layout::RareBlockAfter { lead, top: m_top },
                    seed: rng.u64(),
                };
                let tie = rng.u64();
                let ty = format!("{}<{}>", alias, tname);
                let class = format!("{}|sample-aligned{}", ty, vi);
                let desc = J::obj().set("spec", spec.to_json()).set("tie_seed", tie).set("budget", budget).set("sweep", sweep);
                let w8 = (spec.n as u64) * 40;
                out.push(Case::new(ty, class, desc, w8, move |rep: &mut Rep| {
                    with_tree!(alias, tname, run_prefetch_case, rep, &spec, tie, budget, sweep);
                }));
            }
        }
    }
    let raw_n: Vec<usize> = if cfg.scale == Scale::Tiny { vec![300] } else { vec![0, 1, 300, 5000, 70_000] };
    for n in raw_n {
        let seed = rng.u64();
        out.push(Case::new("raw prefetch calls", format!("raw|n{}", len_bucket(n)), J::obj().set("n", n).set("seed", seed), n as u64 / 10 + 500, move |rep: &mut Rep| {
            run_raw_prefetch(rep, seed, n)
        }));
    }
    out
}
