//! One module per property family; `cases` builds the deterministic case list of a property.

use crate::report::Cfg;
use crate::Case;

pub mod bitvec;
pub mod huge;
pub mod iters;
pub mod paths;
pub mod prefetch;
pub mod prims;
pub mod space;
pub mod total;
pub mod trees;
pub mod twins;
pub mod vectors;

pub fn cases(cfg: &Cfg) -> Vec<Case> {
    match cfg.prop.as_str() {
        "NOOP" => Vec::new(),
        "C01" => with(trees::cases_c01(cfg), huge::huge_cases(cfg, "C01")),
        "C02" => trees::cases_c02(cfg),
        "C03" => trees::cases_c03(cfg),
        "C04" => total::cases_c04(cfg),
        "C05" => with(vectors::cases_c05(cfg), huge::huge_cases(cfg, "C05")),
        "C06" => with(vectors::cases_c06(cfg), huge::huge_cases(cfg, "C06")),
        "C07" => with(vectors::cases_c07(cfg), huge::huge_cases(cfg, "C07")),
        "C08" => bitvec::cases_c08(cfg),
        "C09" => prefetch::cases_c09(cfg),
        "C10" => twins::cases_c10(cfg),
        "C11" => twins::cases_c11(cfg),
        "C12" => iters::cases_c12(cfg),
        "C13" => prims::cases_c13(cfg),
        "C14" => space::cases_c14(cfg),
        "C15" => space::cases_c15(cfg),
        "C16" => space::cases_c16(cfg),
        "C17" => prims::cases_c17(cfg),
        "C19" => paths::cases_c19(cfg),
        other => {
            eprintln!("unknown property {}", other);
            std::process::exit(64);
        }
    }
}

fn with(mut a: Vec<Case>, b: Vec<Case>) -> Vec<Case> {
    a.extend(b);
    a
}
