//! C10 (unchecked variants equal the checked ones on valid arguments, in every build) and
//! C11 (serialization round trip preserves every structure exactly).
//!
//! C10 piggy-backs on the batteries of C01–C08 with `unchecked = true`: an unchecked twin is
//! called only after the checked method returned `Some(v)` for the same arguments, so its
//! documented precondition demonstrably holds, and it must return exactly `v`.

use crate::adapters::*;
use crate::battery::{tree_battery, BatOpts};
use crate::catalogue::*;
use crate::gen::*;
use crate::json::J;
use crate::model::{BitModel, QuadModel, SeqModel};
use crate::outcome::{guard, Out};
use crate::prng::Rng;
use crate::props::bitvec::{hist_cases, observe_full_opt};
use crate::props::trees::{huff_cases, plain_cases};
use crate::props::vectors::{bin_battery, bin_cases, darray_battery, darray_cases, quad_battery, quad_cases, VecOpts};
use crate::report::{Cfg, Exp, Rep, Scale, Tier};
use crate::{chk, with_tree, Case};
use qwt::{BitVector, BitVectorMut, DArray, QVector};

fn every<T>(v: Vec<T>, k: usize) -> Vec<T> {
    v.into_iter().enumerate().filter(|(i, _)| i % k == 0).map(|(_, x)| x).collect()
}

pub fn cases_c10(cfg: &Cfg) -> Vec<Case> {
    let (tb, vb) = match (cfg.scale, cfg.tier) {
        (Scale::Tiny, Tier::Quick) => (60, 80),
        (Scale::Tiny, Tier::Thorough) => (150, 200),
        (Scale::Mid, Tier::Quick) => (3_000, 4_000),
        (Scale::Mid, Tier::Thorough) => (10_000, 12_000),
        (Scale::Full, Tier::Quick) => (8_000, 12_000),
        (Scale::Full, Tier::Thorough) => (40_000, 60_000),
    };
    let mut o = BatOpts::new(tb);
    o.unchecked = true;
    o.invalid = false; // unchecked calls are never made outside their precondition
    let vo = VecOpts { budget: vb, unchecked: true, invalid: false };
    // thin the tree catalogues: the twins do not need every input class again
    let k = match (cfg.scale, cfg.tier) {
        (Scale::Tiny, Tier::Quick) => 5,
        (Scale::Tiny, Tier::Thorough) => 2,
        (_, Tier::Quick) => 3,
        _ => 1,
    };
    let mut out = Vec::new();
    let pq: &[&'static str] = if cfg.scale == Scale::Tiny { &["QWT256Pfs", "QWT512"] } else { &PLAIN_QUAD };
    let hq: &[&'static str] = if cfg.scale == Scale::Tiny { &["HQWT512Pfs", "HQWT256"] } else { &HUFF_QUAD };
    out.extend(every(plain_cases(cfg, pq, &o), k));
    out.extend(every(huff_cases(cfg, hq, 4, &o, false), k));
    out.extend(every(plain_cases(cfg, &["WT"], &o), k));
    out.extend(every(huff_cases(cfg, &["HWT"], 2, &o, false), k));
    out.extend(quad_cases(cfg, &vo));
    out.extend(bin_cases(cfg, &vo));
    out.extend(every(darray_cases(cfg, &vo), if cfg.scale == Scale::Full { 2 } else { 3 }));
    out.extend(every(hist_cases(cfg, true, false), if cfg.scale == Scale::Tiny { 4 } else { 2 }));
    out
}

// ---------------------------------------------------------------------------------------------
// C11
// ---------------------------------------------------------------------------------------------

fn run_ser_tree<Tr: TreeApi>(rep: &mut Rep, spec: &SeqSpec, budget: usize, default_state: bool) {
    let raw = gen_seq(spec, <Tr::Item as Sym>::BITS);
    let data: Vec<Tr::Item> = raw.iter().map(|&x| <Tr::Item as Sym>::from_u128(x)).collect();
    let m = SeqModel::new(raw);
    let t = if default_state {
        Tr::b_default()
    } else {
        match crate::props::trees::guarded_build::<Tr>(rep, &data, (spec.seed % 3) as u8) {
            Some(t) => t,
            None => return,
        }
    };
    crate::props::trees::observe_codes::<Tr>(rep);
    let bytes = chk!(rep, "serialize", m.len(), Exp::Pred("Ok(_)", Box::new(|r: &Result<usize, String>| r.is_ok())), t.ser().map(|b| b.len()));
    if !matches!(bytes.as_val(), Some(Ok(_))) {
        return;
    }
    let bytes = t.ser().unwrap();
    rep.gate_max("max_serialized_bytes", bytes.len() as u64);
    let back = guard(|| Tr::de(&bytes));
    rep.tick("deserialize");
    let t2 = match back {
        Out::Val(Ok(t2)) => t2,
        Out::Val(Err(e)) => {
            rep.viol("deserialize", format!("{} bytes", bytes.len()), "Ok".into(), format!("Err({})", e), "wrong_value".into());
            return;
        }
        Out::Panic(p) => {
            rep.viol("deserialize", format!("{} bytes", bytes.len()), "Ok".into(), format!("{:?}", p), "panic".into());
            return;
        }
    };
    chk!(rep, "deserialized == original", m.len(), Exp::Is(true), t2 == t);
    chk!(rep, "original == deserialized", m.len(), Exp::Is(true), t == t2);
    chk!(rep, "re-serialize identical", m.len(), Exp::Is(true), t2.ser().ok().as_deref() == Some(&bytes[..]));
    // the same bytes through bincode's reader / writer entry points (a file, a socket, a BufReader): a plain slice reader,
    // a reader that hands out a few bytes per call, and a BufReader on top of it
    for (how, chunk) in [("slice reader", 0usize), ("7-byte reads", 7), ("BufReader over 4093-byte reads", 4093)] {
        if chunk == 7 && bytes.len() > 3_000_000 {
            continue;
        }
        let r = guard(|| match chunk {
            0 => Tr::de_reader(&mut &bytes[..]),
            7 => Tr::de_reader(&mut ChunkReader { data: &bytes, pos: 0, chunk }),
            _ => Tr::de_reader(&mut std::io::BufReader::new(ChunkReader { data: &bytes, pos: 0, chunk })),
        });
        rep.tick("deserialize_from(reader)");
        match r {
            Out::Val(Ok(t4)) => {
                chk!(rep, "deserialize_from(reader) == original", (how, m.len()), Exp::Is(true), t4 == t);
            }
            Out::Val(Err(e)) => rep.viol("deserialize_from(reader)", format!("{} ({} bytes)", how, bytes.len()), "Ok".into(), format!("Err({})", e), "wrong_value".into()),
            Out::Panic(p) => rep.viol("deserialize_from(reader)", format!("{} ({} bytes)", how, bytes.len()), "Ok".into(), format!("{:?}", p), "panic".into()),
        }
    }
    let mut w: Vec<u8> = Vec::new();
    chk!(rep, "serialize_into(writer) writes the same bytes", m.len(), Exp::Is(true), t.ser_into(&mut w).is_ok() && w == bytes);
    let mut rng = Rng::new(spec.seed ^ 0xC11);
    let o = BatOpts::new(budget);
    let mut r1 = rng.clone();
    let d1 = tree_battery(rep, &t as &dyn DynTree<Tr::Item>, &m, &mut r1, &o);
    let d2 = tree_battery(rep, &t2 as &dyn DynTree<Tr::Item>, &m, &mut rng, &o);
    chk!(rep, "answers identical (digest)", m.len(), Exp::Is(d1), d2);
    chk!(rep, "space_usage identical", m.len(), Exp::Is(t.space()), t2.space());
    // a value that has already answered queries must round-trip just as well
    chk!(rep, "round trip after queries: bytes unchanged", m.len(), Exp::Is(true), t.ser().ok().as_deref() == Some(&bytes[..]));
    if let Ok(b3) = t.ser() {
        if let Ok(t3) = Tr::de(&b3) {
            chk!(rep, "round trip after queries: deserialized == original", m.len(), Exp::Is(true), t3 == t);
            chk!(rep, "round trip after queries: original == deserialized", m.len(), Exp::Is(true), t == t3);
        }
    }
    if m.len() >= 2 {
        rep.nontrivial();
    }
}

/// a reader that never hands out more than `chunk` bytes per call (short reads are legal for `Read`)
struct ChunkReader<'a> {
    data: &'a [u8],
    pos: usize,
    chunk: usize,
}

impl std::io::Read for ChunkReader<'_> {
    fn read(&mut self, buf: &mut [u8]) -> std::io::Result<usize> {
        let k = buf.len().min(self.chunk).min(self.data.len() - self.pos);
        buf[..k].copy_from_slice(&self.data[self.pos..self.pos + k]);
        self.pos += k;
        Ok(k)
    }
}

/// serialize -> deserialize -> == for a value that has already answered queries
fn roundtrip_after_queries<T: serde::Serialize + serde::de::DeserializeOwned + PartialEq>(rep: &mut Rep, what: &'static str, v: &T) {
    let back = guard(|| bincode::serialize(v).ok().and_then(|b| bincode::deserialize::<T>(&b).ok()));
    rep.tick("round trip after queries");
    match back {
        Out::Val(Some(v2)) => {
            chk!(rep, "round trip after queries: deserialized == original", what, Exp::Is(true), &v2 == v);
            chk!(rep, "round trip after queries: original == deserialized", what, Exp::Is(true), v == &v2);
        }
        other => rep.viol("round trip after queries", what.into(), "Ok".into(), format!("{:?}", other.val().map(|o| o.is_some())), "wrong_value".into()),
    }
}

fn ser_generic<T: serde::Serialize + serde::de::DeserializeOwned + PartialEq>(rep: &mut Rep, what: &'static str, v: &T) -> Option<T> {
    let bytes = match guard(|| bincode::serialize(v)) {
        Out::Val(Ok(b)) => b,
        other => {
            rep.tick("serialize");
            rep.viol("serialize", what.into(), "Ok".into(), format!("{:?}", other.val().map(|r| r.map(|b| b.len()).map_err(|e| e.to_string()))), "wrong_value".into());
            return None;
        }
    };
    rep.tick("serialize");
    rep.gate_max("max_serialized_bytes", bytes.len() as u64);
    let back = guard(|| bincode::deserialize::<T>(&bytes));
    rep.tick("deserialize");
    let v2 = match back {
        Out::Val(Ok(x)) => x,
        Out::Val(Err(e)) => {
            rep.viol("deserialize", what.into(), "Ok".into(), format!("Err({})", e), "wrong_value".into());
            return None;
        }
        Out::Panic(p) => {
            rep.viol("deserialize", what.into(), "Ok".into(), format!("{:?}", p), "panic".into());
            return None;
        }
    };
    chk!(rep, "deserialized == original", what, Exp::Is(true), &v2 == v);
    chk!(rep, "re-serialize identical", what, Exp::Is(true), bincode::serialize(&v2).ok().as_deref() == Some(&bytes[..]));
    for (how, chunk) in [("slice reader", 0usize), ("7-byte reads", 7), ("BufReader over 4093-byte reads", 4093)] {
        if chunk == 7 && bytes.len() > 3_000_000 {
            continue;
        }
        let r = guard(|| match chunk {
            0 => bincode::deserialize_from::<_, T>(&bytes[..]),
            7 => bincode::deserialize_from::<_, T>(ChunkReader { data: &bytes, pos: 0, chunk }),
            _ => bincode::deserialize_from::<_, T>(std::io::BufReader::new(ChunkReader { data: &bytes, pos: 0, chunk })),
        });
        rep.tick("deserialize_from(reader)");
        match r {
            Out::Val(Ok(v4)) => {
                chk!(rep, "deserialize_from(reader) == original", (what, how), Exp::Is(true), &v4 == v);
            }
            Out::Val(Err(e)) => rep.viol("deserialize_from(reader)", format!("{} {} ({} bytes)", what, how, bytes.len()), "Ok".into(), format!("Err({})", e), "wrong_value".into()),
            Out::Panic(p) => rep.viol("deserialize_from(reader)", format!("{} {} ({} bytes)", what, how, bytes.len()), "Ok".into(), format!("{:?}", p), "panic".into()),
        }
    }
    let mut w: Vec<u8> = Vec::new();
    chk!(rep, "serialize_into(writer) writes the same bytes", what, Exp::Is(true), bincode::serialize_into(&mut w, v).is_ok() && w == bytes);
    chk!(rep, "serialized_size == number of bytes written", what, Exp::Is(Some(bytes.len() as u64)), bincode::serialized_size(v).ok());
    Some(v2)
}

fn run_ser_quad<Q: QuadApi + serde::Serialize + serde::de::DeserializeOwned>(rep: &mut Rep, spec: &QuadSpec, budget: usize, default_state: bool) {
    let data = gen_quads(spec);
    let m = QuadModel::new(data.clone());
    let q = if default_state { Q::b_default() } else { crate::props::vectors::build_quad::<Q>(&data, (spec.seed % 4) as u8) };
    let Some(q2) = ser_generic(rep, Q::NAME, &q) else { return };
    let mut rng = Rng::new(spec.seed ^ 0xC11);
    let o = VecOpts { budget, unchecked: false, invalid: true };
    let mut r1 = rng.clone();
    let d1 = quad_battery(rep, &q, &m, &mut r1, &o);
    let d2 = quad_battery(rep, &q2, &m, &mut rng, &o);
    chk!(rep, "answers identical (digest)", Q::NAME, Exp::Is(d1), d2);
    chk!(rep, "space_usage identical", Q::NAME, Exp::Is(q.space()), q2.space());
    roundtrip_after_queries(rep, Q::NAME, &q);
    // the plain QVector too
    let qv: QVector = data.iter().copied().collect();
    if let Some(qv2) = ser_generic(rep, "QVector", &qv) {
        chk!(rep, "QVector iter identical", data.len(), Exp::Is(true), qv2.iter().collect::<Vec<u8>>() == data);
    }
}

fn run_ser_bits(rep: &mut Rep, spec: &BitSpec, budget: usize, default_state: bool) {
    let bits = gen_bits(spec);
    let m = BitModel::new(bits.clone());
    let mut rng = Rng::new(spec.seed ^ 0xC11);
    let o = VecOpts { budget, unchecked: false, invalid: true };
    let bv: BitVector = if default_state { BitVector::default() } else { bits.iter().copied().collect() };
    let bvm: BitVectorMut = if default_state { BitVectorMut::default() } else { bits.iter().copied().collect() };
    if let Some(bv2) = ser_generic(rep, "BitVector", &bv) {
        observe_full_opt(rep, &bv2, &bits, &mut rng, false, budget.min(800), false);
    }
    if let Some(mut bvm2) = ser_generic(rep, "BitVectorMut", &bvm) {
        // a mutable vector with spare capacity and a history
        observe_full_opt(rep, &bvm2, &bits, &mut rng, false, budget.min(800), false);
        bvm2.push(true);
        let mut b3 = bvm.clone();
        b3.push(true);
        chk!(rep, "deserialized BitVectorMut stays usable", bits.len(), Exp::Is(true), bvm2 == b3);
    }
    macro_rules! rs {
        ($t:ty, $name:expr) => {{
            let r: $t = if default_state { <$t>::default() } else { <$t>::new(bv.clone()) };
            if let Some(r2) = ser_generic(rep, $name, &r) {
                let mut r1 = rng.clone();
                let d1 = bin_battery(rep, &r, &m, &mut r1, &o);
                let d2 = bin_battery(rep, &r2, &m, &mut rng, &o);
                chk!(rep, "answers identical (digest)", $name, Exp::Is(d1), d2);
                chk!(rep, "space_usage identical", $name, Exp::Is(r.space()), r2.space());
                roundtrip_after_queries(rep, $name, &r);
            }
        }};
    }
    rs!(qwt::RSNarrow, "RSNarrow");
    rs!(qwt::RSWide, "RSWide");
    macro_rules! da {
        ($s0:expr, $name:expr) => {{
            let d: DArray<$s0> = if default_state { DArray::<$s0>::default() } else { DArray::<$s0>::new(bv.clone()) };
            if let Some(d2) = ser_generic(rep, $name, &d) {
                let mut r1 = rng.clone();
                let d1 = darray_battery(rep, &d, &m, &mut r1, &o);
                let dd2 = darray_battery(rep, &d2, &m, &mut rng, &o);
                chk!(rep, "answers identical (digest)", $name, Exp::Is(d1), dd2);
                roundtrip_after_queries(rep, $name, &d);
            }
        }};
    }
    da!(false, "DArray<false>");
    da!(true, "DArray<true>");
    if bits.len() >= 2 {
        rep.nontrivial();
    }
}

pub fn cases_c11(cfg: &Cfg) -> Vec<Case> {
    let mut rng = Rng::derive(cfg.seed, "c11", 0);
    let mut out = Vec::new();
    let budget = match (cfg.scale, cfg.tier) {
        (Scale::Tiny, _) => 40,
        (Scale::Mid, Tier::Quick) => 800,
        (Scale::Mid, Tier::Thorough) => 3000,
        (Scale::Full, Tier::Quick) => 3000,
        (Scale::Full, Tier::Thorough) => 12_000,
    };
    let aliases: Vec<&'static str> = PLAIN_QUAD.iter().chain(HUFF_QUAD.iter()).chain(BIN_TREES.iter()).copied().collect();
    let types: &[&'static str] = if cfg.scale == Scale::Tiny { &["u8", "u128"] } else { &["u8", "u16", "u32", "u64", "usize", "u128"] };
    for (ai, alias) in aliases.iter().enumerate() {
        let alias: &'static str = alias;
        let huff = alias.starts_with('H');
        let arity = if alias == "HWT" { 2 } else { 4 };
        for (ti, tname) in types.iter().enumerate() {
            let tname: &'static str = tname;
            if cfg.scale == Scale::Tiny && (ai + ti) % 2 == 1 {
                continue;
            }
            let bits = elem_bits(tname);
            let specs = if huff { huff_tree_specs(cfg.scale, cfg.tier, bits, arity, cfg.seed ^ 0x11) } else { plain_tree_specs(cfg.scale, cfg.tier, bits, cfg.seed ^ 0x11) };
            // a rotating sixth of the catalogue per (alias, type), always including the empty input
            let k = if cfg.scale == Scale::Tiny { 40 } else if cfg.tier == Tier::Quick { 6 } else { 2 };
            for (j, spec) in specs.into_iter().enumerate() {
                if spec.n > 1_200_000 || (j != 0 && (j + ai + ti) % k != 0) {
                    continue;
                }
                let ty = format!("{}<{}>", alias, tname);
                let class = format!("{}|{}", ty, spec.class());
                let desc = J::obj().set("spec", spec.to_json());
                let w = spec.n as u64 / 2 + budget as u64 * 3;
                out.push(Case::new(ty, class, desc, w, move |rep: &mut Rep| {
                    with_tree!(alias, tname, run_ser_tree, rep, &spec, budget, false);
                }));
            }
            // the Default value
            let spec = SeqSpec { n: 0, alpha: Alpha::Dense(2), dist: Dist::Uniform, layout: Layout::Iid, seed: rng.u64() };
            let ty = format!("{}<{}>", alias, tname);
            out.push(Case::new(ty.clone(), format!("{}|default", ty), J::obj().set("state", "Default::default()"), 50, move |rep: &mut Rep| {
                with_tree!(alias, tname, run_ser_tree, rep, &spec, budget, true);
            }));
        }
    }
    if cfg.scale == Scale::Full {
        // Huffman-shaped trees with long (25..27-bit) codewords on two branches
        for alias in ["HWT", "HQWT512Pfs"] {
            let spec = long_two_branch_spec(rng.u64());
            let ty = format!("{}<u8>", alias);
            let class = format!("{}|long two-branch codes", ty);
            let desc = J::obj().set("spec", spec.to_json());
            let w = spec.n as u64 * 3;
            out.push(Case::new(ty, class, desc, w, move |rep: &mut Rep| {
                with_tree!(alias, "u8", run_ser_tree, rep, &spec, budget, false);
            }));
        }
    }
    if cfg.scale == Scale::Full && cfg.rep == 0 {
        // the deepest codes the trees support: one codeword of exactly 32 bits (16 quad levels; 32 binary levels, thorough)
        let mut deep: Vec<(&'static str, usize)> = vec![("HQWT256", 4), ("HQWT512Pfs", 4)];
        if cfg.tier == Tier::Thorough {
            deep.push(("HWT", 2));
        }
        for (alias, arity) in deep {
            let spec = deepest_supported_spec(arity, rng.u64());
            let ty = format!("{}<u8>", alias);
            let class = format!("{}|deepest supported code (32 bits)", ty);
            let desc = J::obj().set("spec", spec.to_json());
            let w = spec.n as u64 * 4;
            out.push(Case::new(ty, class, desc, w, move |rep: &mut Rep| {
                with_tree!(alias, "u8", run_ser_tree, rep, &spec, budget, false);
            }));
        }
    }
    let qk = if cfg.scale == Scale::Tiny { 12 } else { 2 };
    for (j, spec) in quad_specs(cfg.scale, cfg.tier, cfg.seed ^ 0x11).into_iter().enumerate() {
        if j % qk != 0 {
            continue;
        }
        for block in [256usize, 512] {
            let spec = spec.clone();
            let ty = if block == 256 { "RSQVector256" } else { "RSQVector512" };
            let class = format!("{}|{}", ty, spec.class());
            let desc = J::obj().set("spec", spec.to_json());
            let w = spec.n as u64 / 8 + budget as u64 * 2;
            let default_state = false;
            out.push(Case::new(ty, class, desc, w, move |rep: &mut Rep| {
                if block == 256 {
                    run_ser_quad::<qwt::RSQVector256>(rep, &spec, budget, default_state)
                } else {
                    run_ser_quad::<qwt::RSQVector512>(rep, &spec, budget, default_state)
                }
            }));
        }
    }
    for block in [256usize, 512] {
        let spec = QuadSpec { n: 0, kind: QuadKind::Uniform, seed: rng.u64() };
        let ty = if block == 256 { "RSQVector256" } else { "RSQVector512" };
        out.push(Case::new(ty, format!("{}|default", ty), J::obj().set("state", "Default::default()"), 50, move |rep: &mut Rep| {
            if block == 256 {
                run_ser_quad::<qwt::RSQVector256>(rep, &spec, budget, true)
            } else {
                run_ser_quad::<qwt::RSQVector512>(rep, &spec, budget, true)
            }
        }));
    }
    let bk = if cfg.scale == Scale::Tiny { 16 } else { 2 };
    for (j, spec) in bit_specs(cfg.scale, cfg.tier, cfg.seed ^ 0x11).into_iter().enumerate() {
        if j % bk != 0 {
            continue;
        }
        let class = format!("bit structures|{}", spec.class());
        let desc = J::obj().set("spec", spec.to_json());
        let w = spec.n as u64 / 4 + budget as u64 * 8;
        out.push(Case::new("BitVector/BitVectorMut/RSNarrow/RSWide/DArray", class, desc, w, move |rep: &mut Rep| run_ser_bits(rep, &spec, budget, false)));
    }
    let spec = BitSpec { n: 0, kind: BitKind::Zeros, seed: rng.u64() };
    out.push(Case::new("BitVector/BitVectorMut/RSNarrow/RSWide/DArray", "bit structures|default", J::obj().set("state", "Default::default()"), 50, move |rep: &mut Rep| {
        run_ser_bits(rep, &spec, budget, true)
    }));
    out
}
