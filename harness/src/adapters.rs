//! Uniform views over qwt's public types so that monitors can be written once.
//! Only the public API is used (plus the cfg(qwt_verif) level-length accessors).

use qwt::{
    AccessBin, AccessQuad, AccessUnsigned, BitVector, DArray, QVector, RSNarrow, RSQVector256,
    RSQVector512, RSWide, RankBin, RankQuad, RankUnsigned, SelectBin, SelectQuad, SelectUnsigned,
    SpaceUsage, WTSupport, HQWT256, HQWT256Pfs, HQWT512, HQWT512Pfs, HWT, QWT256, QWT256Pfs,
    QWT512, QWT512Pfs, WT,
};
use std::fmt::Debug;

// ---------------------------------------------------------------------------------------------
// element types
// ---------------------------------------------------------------------------------------------

pub trait Sym:
    Copy + Debug + PartialEq + Eq + Ord + Send + Sync + serde::Serialize + serde::de::DeserializeOwned + 'static
{
    const BITS: u32;
    const NAME: &'static str;
    fn to_u128(self) -> u128;
    /// truncating conversion
    fn from_u128(v: u128) -> Self;
    fn max_u128() -> u128 {
        crate::gen::type_max(Self::BITS)
    }
    /// does v fit in this type?
    fn fits(v: u128) -> bool {
        v <= Self::max_u128()
    }
}

macro_rules! impl_sym {
    ($($t:ty),*) => { $(
        impl Sym for $t {
            const BITS: u32 = <$t>::BITS;
            const NAME: &'static str = stringify!($t);
            #[inline] fn to_u128(self) -> u128 { self as u128 }
            #[inline] fn from_u128(v: u128) -> Self { v as $t }
        }
    )* }
}
impl_sym!(u8, u16, u32, u64, usize, u128);

// ---------------------------------------------------------------------------------------------
// wavelet trees
// ---------------------------------------------------------------------------------------------

#[derive(Clone, Copy, Debug, PartialEq, Eq)]
pub enum TreeKind {
    /// QWaveletTree: rank of an absent symbol <= max is 0
    PlainQuad,
    /// HuffQWaveletTree: absent symbol -> None
    HuffQuad,
    /// WT
    PlainBin,
    /// HWT
    HuffBin,
}

impl TreeKind {
    pub fn is_huff(self) -> bool {
        matches!(self, TreeKind::HuffQuad | TreeKind::HuffBin)
    }
    pub fn is_quad(self) -> bool {
        matches!(self, TreeKind::PlainQuad | TreeKind::HuffQuad)
    }
    /// bits consumed per level
    pub fn bits_per_level(self) -> usize {
        if self.is_quad() {
            2
        } else {
            1
        }
    }
}

pub trait DEIter<T>: DoubleEndedIterator<Item = T> + ExactSizeIterator {}
impl<T, I: DoubleEndedIterator<Item = T> + ExactSizeIterator> DEIter<T> for I {}

/// Object-safe query view of a wavelet tree (so that the monitors are compiled once per element
/// type rather than once per tree type).
pub trait DynTree<T: Sym>: Debug {
    fn alias(&self) -> &'static str;
    fn kind(&self) -> TreeKind;
    fn pfs(&self) -> bool;
    fn block(&self) -> usize;
    fn len_(&self) -> usize;
    fn is_empty_(&self) -> bool;
    fn n_levels_(&self) -> usize;
    /// `None` when the type has no `sigma()` method
    fn sigma_(&self) -> Option<Option<T>>;
    fn get_(&self, i: usize) -> Option<T>;
    /// # Safety: i < len
    unsafe fn get_unchecked_(&self, i: usize) -> T;
    fn rank_(&self, c: T, i: usize) -> Option<usize>;
    /// # Safety: valid symbol and i <= len
    unsafe fn rank_unchecked_(&self, c: T, i: usize) -> usize;
    fn select_(&self, c: T, k: usize) -> Option<usize>;
    /// # Safety: occurrence exists
    unsafe fn select_unchecked_(&self, c: T, k: usize) -> usize;
    /// outer `None` when the type has no `rank_prefetch`
    fn rank_prefetch_(&self, c: T, i: usize) -> Option<Option<usize>>;
    /// # Safety: valid symbol and i <= len
    unsafe fn rank_prefetch_unchecked_(&self, c: T, i: usize) -> Option<usize>;
    fn ser(&self) -> Result<Vec<u8>, String>;
    fn space(&self) -> usize;
    fn space_scaled(&self) -> (f64, f64, f64);
    fn iter_box(&self) -> Box<dyn DEIter<T> + '_>;
    fn ref_into_iter_box(&self) -> Box<dyn DEIter<T> + '_>;
    /// per-level lengths (hook); for plain quad trees every level has length n
    fn level_lens(&self) -> Vec<usize>;
    fn debug_len(&self) -> usize;
}

pub trait TreeApi: DynTree<<Self as TreeApi>::Item> + Sized + Clone + PartialEq + 'static {
    type Item: Sym;
    const ALIAS: &'static str;
    const KIND: TreeKind;
    const PFS: bool;
    const BLOCK: usize;

    fn name() -> String {
        format!("{}<{}>", Self::ALIAS, <Self::Item as Sym>::NAME)
    }
    fn b_new(s: &mut [Self::Item]) -> Self;
    fn b_from(v: Vec<Self::Item>) -> Self;
    fn b_collect(v: Vec<Self::Item>) -> Self;
    fn b_default() -> Self;
    fn de(b: &[u8]) -> Result<Self, String>;
    /// bincode's reader-based entry point (a file, a socket, a `BufReader`)
    fn de_reader(r: &mut dyn std::io::Read) -> Result<Self, String>;
    fn ser_into(&self, w: &mut dyn std::io::Write) -> Result<(), String>;
    fn into_iter_box(self) -> Box<dyn DEIter<Self::Item>>;
}

macro_rules! impl_tree {
    ($alias:ident, $kind:expr, $pfs:expr, $block:expr, $sigma:expr, $rp:expr, $rpu:expr, $lens:expr; $($t:ty),*) => { $(
        impl DynTree<$t> for $alias<$t> {
            fn alias(&self) -> &'static str { stringify!($alias) }
            fn kind(&self) -> TreeKind { $kind }
            fn pfs(&self) -> bool { $pfs }
            fn block(&self) -> usize { $block }
            fn len_(&self) -> usize { self.len() }
            fn is_empty_(&self) -> bool { self.is_empty() }
            fn n_levels_(&self) -> usize { self.n_levels() }
            fn sigma_(&self) -> Option<Option<$t>> { ($sigma)(self) }
            fn get_(&self, i: usize) -> Option<$t> { AccessUnsigned::get(self, i) }
            unsafe fn get_unchecked_(&self, i: usize) -> $t { AccessUnsigned::get_unchecked(self, i) }
            fn rank_(&self, c: $t, i: usize) -> Option<usize> { RankUnsigned::rank(self, c, i) }
            unsafe fn rank_unchecked_(&self, c: $t, i: usize) -> usize { RankUnsigned::rank_unchecked(self, c, i) }
            fn select_(&self, c: $t, k: usize) -> Option<usize> { SelectUnsigned::select(self, c, k) }
            unsafe fn select_unchecked_(&self, c: $t, k: usize) -> usize { SelectUnsigned::select_unchecked(self, c, k) }
            fn rank_prefetch_(&self, c: $t, i: usize) -> Option<Option<usize>> { ($rp)(self, c, i) }
            unsafe fn rank_prefetch_unchecked_(&self, c: $t, i: usize) -> Option<usize> { ($rpu)(self, c, i) }
            fn ser(&self) -> Result<Vec<u8>, String> { bincode::serialize(self).map_err(|e| e.to_string()) }
            fn space(&self) -> usize { self.space_usage_byte() }
            fn space_scaled(&self) -> (f64, f64, f64) { (self.space_usage_KiB(), self.space_usage_MiB(), self.space_usage_GiB()) }
            fn iter_box(&self) -> Box<dyn DEIter<$t> + '_> { Box::new(self.iter()) }
            fn ref_into_iter_box(&self) -> Box<dyn DEIter<$t> + '_> { Box::new(self.into_iter()) }
            fn level_lens(&self) -> Vec<usize> { ($lens)(self) }
            fn debug_len(&self) -> usize { format!("{:?}", self).len() }
        }
        impl TreeApi for $alias<$t> {
            type Item = $t;
            const ALIAS: &'static str = stringify!($alias);
            const KIND: TreeKind = $kind;
            const PFS: bool = $pfs;
            const BLOCK: usize = $block;
            fn b_new(s: &mut [$t]) -> Self { Self::new(s) }
            fn b_from(v: Vec<$t>) -> Self { Self::from(v) }
            fn b_collect(v: Vec<$t>) -> Self { v.into_iter().collect() }
            fn b_default() -> Self { Self::default() }
            fn de(b: &[u8]) -> Result<Self, String> { bincode::deserialize(b).map_err(|e| e.to_string()) }
            fn de_reader(r: &mut dyn std::io::Read) -> Result<Self, String> { bincode::deserialize_from(r).map_err(|e| e.to_string()) }
            fn ser_into(&self, w: &mut dyn std::io::Write) -> Result<(), String> { bincode::serialize_into(w, self).map_err(|e| e.to_string()) }
            fn into_iter_box(self) -> Box<dyn DEIter<$t>> { Box::new(self.into_iter()) }
        }
    )* }
}

macro_rules! impl_plain_quad {
    ($alias:ident, $pfs:expr, $block:expr; $($t:ty),*) => {
        impl_tree!($alias, TreeKind::PlainQuad, $pfs, $block,
            |s: &Self| Some(s.sigma()),
            |s: &Self, c, i| Some(s.rank_prefetch(c, i)),
            |s: &Self, c, i| Some(s.rank_prefetch_unchecked(c, i)),
            |s: &Self| vec![s.len(); s.n_levels()]; $($t),*);
    }
}
macro_rules! impl_huff_quad {
    ($alias:ident, $pfs:expr, $block:expr; $($t:ty),*) => {
        impl_tree!($alias, TreeKind::HuffQuad, $pfs, $block,
            |_s: &Self| None,
            |s: &Self, c, i| Some(s.rank_prefetch(c, i)),
            |s: &Self, c, i| Some(s.rank_prefetch_unchecked(c, i)),
            |s: &Self| s.verif_level_lens().to_vec(); $($t),*);
    }
}
macro_rules! impl_bin {
    ($alias:ident, $kind:expr; $($t:ty),*) => {
        impl_tree!($alias, $kind, false, 512,
            |_s: &Self| None,
            |_s: &Self, _c, _i| None,
            |_s: &Self, _c, _i| None,
            |s: &Self| s.verif_level_lens().to_vec(); $($t),*);
    }
}

impl_plain_quad!(QWT256, false, 256; u8, u16, u32, u64, usize, u128);
impl_plain_quad!(QWT512, false, 512; u8, u16, u32, u64, usize, u128);
impl_plain_quad!(QWT256Pfs, true, 256; u8, u16, u32, u64, usize, u128);
impl_plain_quad!(QWT512Pfs, true, 512; u8, u16, u32, u64, usize, u128);
impl_huff_quad!(HQWT256, false, 256; u8, u16, u32, u64, usize, u128);
impl_huff_quad!(HQWT512, false, 512; u8, u16, u32, u64, usize, u128);
impl_huff_quad!(HQWT256Pfs, true, 256; u8, u16, u32, u64, usize, u128);
impl_huff_quad!(HQWT512Pfs, true, 512; u8, u16, u32, u64, usize, u128);
impl_bin!(WT, TreeKind::PlainBin; u8, u16, u32, u64, usize, u128);
impl_bin!(HWT, TreeKind::HuffBin; u8, u16, u32, u64, usize, u128);

/// Calls `$f::<Tree<$t>>($($args),*)` for the tree alias named at run time.
#[macro_export]
macro_rules! with_tree_alias {
    ($alias:expr, $t:ty, $f:ident, $($args:expr),*) => {
        match $alias {
            "QWT256" => $f::<qwt::QWT256<$t>>($($args),*),
            "QWT512" => $f::<qwt::QWT512<$t>>($($args),*),
            "QWT256Pfs" => $f::<qwt::QWT256Pfs<$t>>($($args),*),
            "QWT512Pfs" => $f::<qwt::QWT512Pfs<$t>>($($args),*),
            "HQWT256" => $f::<qwt::HQWT256<$t>>($($args),*),
            "HQWT512" => $f::<qwt::HQWT512<$t>>($($args),*),
            "HQWT256Pfs" => $f::<qwt::HQWT256Pfs<$t>>($($args),*),
            "HQWT512Pfs" => $f::<qwt::HQWT512Pfs<$t>>($($args),*),
            "WT" => $f::<qwt::WT<$t>>($($args),*),
            "HWT" => $f::<qwt::HWT<$t>>($($args),*),
            other => panic!("unknown tree alias {}", other),
        }
    };
}

/// Dispatch on (alias, element type name).
#[macro_export]
macro_rules! with_tree {
    ($alias:expr, $tname:expr, $f:ident, $($args:expr),*) => {
        match $tname {
            "u8" => $crate::with_tree_alias!($alias, u8, $f, $($args),*),
            "u16" => $crate::with_tree_alias!($alias, u16, $f, $($args),*),
            "u32" => $crate::with_tree_alias!($alias, u32, $f, $($args),*),
            "u64" => $crate::with_tree_alias!($alias, u64, $f, $($args),*),
            "usize" => $crate::with_tree_alias!($alias, usize, $f, $($args),*),
            "u128" => $crate::with_tree_alias!($alias, u128, $f, $($args),*),
            other => panic!("unknown element type {}", other),
        }
    };
}

pub const PLAIN_QUAD: [&str; 4] = ["QWT256", "QWT512", "QWT256Pfs", "QWT512Pfs"];
pub const HUFF_QUAD: [&str; 4] = ["HQWT256", "HQWT512", "HQWT256Pfs", "HQWT512Pfs"];
pub const BIN_TREES: [&str; 2] = ["WT", "HWT"];
pub const ELEM_TYPES: [&str; 6] = ["u8", "u16", "u32", "u64", "usize", "u128"];

pub fn elem_bits(t: &str) -> u32 {
    match t {
        "u8" => 8,
        "u16" => 16,
        "u32" => 32,
        "u64" | "usize" => 64,
        "u128" => 128,
        _ => panic!("elem type"),
    }
}

// ---------------------------------------------------------------------------------------------
// rank/select quad vectors
// ---------------------------------------------------------------------------------------------

pub trait QuadApi: Sized + Clone + PartialEq + Debug + 'static {
    const NAME: &'static str;
    const BLOCK: usize;
    fn b_new_u8(v: &[u8]) -> Self;
    fn b_new_u64(v: &[u64]) -> Self;
    fn b_from_qv(qv: QVector) -> Self;
    fn b_collect(v: Vec<u8>) -> Self;
    fn b_default() -> Self;
    fn len_(&self) -> usize;
    fn is_empty_(&self) -> bool;
    fn get_(&self, i: usize) -> Option<u8>;
    unsafe fn get_unchecked_(&self, i: usize) -> u8;
    fn rank_(&self, s: u8, i: usize) -> Option<usize>;
    unsafe fn rank_unchecked_(&self, s: u8, i: usize) -> usize;
    fn select_(&self, s: u8, k: usize) -> Option<usize>;
    unsafe fn select_unchecked_(&self, s: u8, k: usize) -> usize;
    fn occs_(&self, s: u8) -> Option<usize>;
    unsafe fn occs_unchecked_(&self, s: u8) -> usize;
    fn occs_smaller_(&self, s: u8) -> Option<usize>;
    unsafe fn occs_smaller_unchecked_(&self, s: u8) -> usize;
    unsafe fn rank_block_unchecked_(&self, s: u8, i: usize) -> usize;
    fn prefetch_info_(&self, pos: usize);
    fn prefetch_data_(&self, pos: usize);
    fn ser(&self) -> Result<Vec<u8>, String>;
    fn de(b: &[u8]) -> Result<Self, String>;
    fn space(&self) -> usize;
    fn iter_vec(&self) -> Vec<u8>;
    fn ref_into_iter_vec(&self) -> Vec<u8>;
    fn into_iter_vec(self) -> Vec<u8>;
    fn iter_box(&self) -> Box<dyn Iterator<Item = u8> + '_>;
    fn into_iter_box(self) -> Box<dyn Iterator<Item = u8>>;
}

macro_rules! impl_quad_api {
    ($ty:ident, $block:expr) => {
        impl QuadApi for $ty {
            const NAME: &'static str = stringify!($ty);
            const BLOCK: usize = $block;
            fn b_new_u8(v: &[u8]) -> Self {
                $ty::new(v)
            }
            fn b_new_u64(v: &[u64]) -> Self {
                $ty::new(v)
            }
            fn b_from_qv(qv: QVector) -> Self {
                $ty::from(qv)
            }
            fn b_collect(v: Vec<u8>) -> Self {
                v.into_iter().collect()
            }
            fn b_default() -> Self {
                $ty::default()
            }
            fn len_(&self) -> usize {
                self.len()
            }
            fn is_empty_(&self) -> bool {
                self.is_empty()
            }
            #[inline]
            fn get_(&self, i: usize) -> Option<u8> {
                AccessQuad::get(self, i)
            }
            #[inline]
            unsafe fn get_unchecked_(&self, i: usize) -> u8 {
                AccessQuad::get_unchecked(self, i)
            }
            #[inline]
            fn rank_(&self, s: u8, i: usize) -> Option<usize> {
                RankQuad::rank(self, s, i)
            }
            #[inline]
            unsafe fn rank_unchecked_(&self, s: u8, i: usize) -> usize {
                RankQuad::rank_unchecked(self, s, i)
            }
            #[inline]
            fn select_(&self, s: u8, k: usize) -> Option<usize> {
                SelectQuad::select(self, s, k)
            }
            #[inline]
            unsafe fn select_unchecked_(&self, s: u8, k: usize) -> usize {
                SelectQuad::select_unchecked(self, s, k)
            }
            fn occs_(&self, s: u8) -> Option<usize> {
                WTSupport::occs(self, s)
            }
            unsafe fn occs_unchecked_(&self, s: u8) -> usize {
                WTSupport::occs_unchecked(self, s)
            }
            fn occs_smaller_(&self, s: u8) -> Option<usize> {
                WTSupport::occs_smaller(self, s)
            }
            unsafe fn occs_smaller_unchecked_(&self, s: u8) -> usize {
                WTSupport::occs_smaller_unchecked(self, s)
            }
            unsafe fn rank_block_unchecked_(&self, s: u8, i: usize) -> usize {
                WTSupport::rank_block_unchecked(self, s, i)
            }
            fn prefetch_info_(&self, pos: usize) {
                WTSupport::prefetch_info(self, pos)
            }
            fn prefetch_data_(&self, pos: usize) {
                WTSupport::prefetch_data(self, pos)
            }
            fn ser(&self) -> Result<Vec<u8>, String> {
                bincode::serialize(self).map_err(|e| e.to_string())
            }
            fn de(b: &[u8]) -> Result<Self, String> {
                bincode::deserialize(b).map_err(|e| e.to_string())
            }
            fn space(&self) -> usize {
                self.space_usage_byte()
            }
            fn iter_vec(&self) -> Vec<u8> {
                self.iter().collect()
            }
            fn ref_into_iter_vec(&self) -> Vec<u8> {
                let mut v = Vec::new();
                for x in self {
                    v.push(x);
                }
                v
            }
            fn into_iter_vec(self) -> Vec<u8> {
                self.into_iter().collect()
            }
            fn iter_box(&self) -> Box<dyn Iterator<Item = u8> + '_> {
                Box::new(self.iter())
            }
            fn into_iter_box(self) -> Box<dyn Iterator<Item = u8>> {
                Box::new(self.into_iter())
            }
        }
    };
}
impl_quad_api!(RSQVector256, 256);
impl_quad_api!(RSQVector512, 512);

// ---------------------------------------------------------------------------------------------
// rank/select bit vectors
// ---------------------------------------------------------------------------------------------

pub trait BinApi: Sized + Clone + PartialEq + Debug + 'static {
    const NAME: &'static str;
    fn b_new(bv: BitVector) -> Self;
    fn b_from(bv: BitVector) -> Self;
    fn b_default() -> Self;
    fn get_(&self, i: usize) -> Option<bool>;
    unsafe fn get_unchecked_(&self, i: usize) -> bool;
    fn rank1_(&self, i: usize) -> Option<usize>;
    fn rank0_(&self, i: usize) -> Option<usize>;
    unsafe fn rank1_unchecked_(&self, i: usize) -> usize;
    unsafe fn rank0_unchecked_(&self, i: usize) -> usize;
    fn select1_(&self, k: usize) -> Option<usize>;
    fn select0_(&self, k: usize) -> Option<usize>;
    unsafe fn select1_unchecked_(&self, k: usize) -> usize;
    unsafe fn select0_unchecked_(&self, k: usize) -> usize;
    fn n_ones_(&self) -> usize;
    fn n_zeros_(&self) -> usize;
    fn trait_n_zeros_(&self) -> usize;
    /// only RSWide has bv_len()
    fn bv_len_(&self) -> Option<usize>;
    fn prefetch_(&self, pos: usize);
    fn ser(&self) -> Result<Vec<u8>, String>;
    fn de(b: &[u8]) -> Result<Self, String>;
    fn space(&self) -> usize;
}

macro_rules! impl_bin_api {
    ($ty:ident, $bvlen:expr, $pf:expr) => {
        impl BinApi for $ty {
            const NAME: &'static str = stringify!($ty);
            fn b_new(bv: BitVector) -> Self {
                $ty::new(bv)
            }
            fn b_from(bv: BitVector) -> Self {
                $ty::from(bv)
            }
            fn b_default() -> Self {
                $ty::default()
            }
            #[inline]
            fn get_(&self, i: usize) -> Option<bool> {
                AccessBin::get(self, i)
            }
            #[inline]
            unsafe fn get_unchecked_(&self, i: usize) -> bool {
                AccessBin::get_unchecked(self, i)
            }
            #[inline]
            fn rank1_(&self, i: usize) -> Option<usize> {
                RankBin::rank1(self, i)
            }
            #[inline]
            fn rank0_(&self, i: usize) -> Option<usize> {
                RankBin::rank0(self, i)
            }
            #[inline]
            unsafe fn rank1_unchecked_(&self, i: usize) -> usize {
                RankBin::rank1_unchecked(self, i)
            }
            #[inline]
            unsafe fn rank0_unchecked_(&self, i: usize) -> usize {
                RankBin::rank0_unchecked(self, i)
            }
            #[inline]
            fn select1_(&self, k: usize) -> Option<usize> {
                SelectBin::select1(self, k)
            }
            #[inline]
            fn select0_(&self, k: usize) -> Option<usize> {
                SelectBin::select0(self, k)
            }
            #[inline]
            unsafe fn select1_unchecked_(&self, k: usize) -> usize {
                SelectBin::select1_unchecked(self, k)
            }
            #[inline]
            unsafe fn select0_unchecked_(&self, k: usize) -> usize {
                SelectBin::select0_unchecked(self, k)
            }
            fn n_ones_(&self) -> usize {
                self.n_ones()
            }
            fn n_zeros_(&self) -> usize {
                self.n_zeros()
            }
            fn trait_n_zeros_(&self) -> usize {
                RankBin::n_zeros(self)
            }
            fn bv_len_(&self) -> Option<usize> {
                ($bvlen)(self)
            }
            fn prefetch_(&self, pos: usize) {
                ($pf)(self, pos)
            }
            fn ser(&self) -> Result<Vec<u8>, String> {
                bincode::serialize(self).map_err(|e| e.to_string())
            }
            fn de(b: &[u8]) -> Result<Self, String> {
                bincode::deserialize(b).map_err(|e| e.to_string())
            }
            fn space(&self) -> usize {
                self.space_usage_byte()
            }
        }
    };
}
impl_bin_api!(RSNarrow, |_s: &RSNarrow| None, |_s: &RSNarrow, _p: usize| ());
impl_bin_api!(
    RSWide,
    |s: &RSWide| Some(s.bv_len()),
    |s: &RSWide, p: usize| {
        s.prefetch_info(p);
        s.prefetch_data(p);
    }
);

pub fn bv_from_bools(bits: &[bool]) -> BitVector {
    bits.iter().copied().collect()
}

pub type DArrayF = DArray<false>;
pub type DArrayT = DArray<true>;
