//! Command-line driver shared by the worker binaries.
//!
//! worker <PROP> --tier quick|thorough --lane <name> --scale tiny|mid|full --seed S
//!        --shard k/N [--only IDX] [--from IDX] [--trace] [--list]

use crate::report::{Cfg, Rep, Scale, Tier};
use crate::{shard_of, Case};

fn usage() -> ! {
    eprintln!("usage: worker <PROP> --tier quick|thorough --lane L --scale tiny|mid|full --seed S --shard k/N [--only I] [--from I] [--reps R] [--trace] [--list]");
    std::process::exit(64);
}

pub fn run(cases_fn: impl Fn(&Cfg) -> Vec<Case>) {
    let args: Vec<String> = std::env::args().collect();
    if args.len() < 2 {
        usage();
    }
    let mut cfg = Cfg {
        prop: args[1].clone(),
        tier: Tier::Quick,
        lane: "rel".into(),
        scale: Scale::Full,
        seed: 1,
        shard: 0,
        nshards: 1,
        only: None,
        from: 0,
        trace: false,
        list: false,
        rep: 0,
    };
    let mut reps: u64 = 1;
    let mut i = 2;
    while i < args.len() {
        let a = args[i].as_str();
        let val = |i: usize| -> &str { args.get(i + 1).map(|s| s.as_str()).unwrap_or_else(|| usage()) };
        match a {
            "--tier" => {
                cfg.tier = match val(i) {
                    "quick" => Tier::Quick,
                    "thorough" => Tier::Thorough,
                    _ => usage(),
                };
                i += 1;
            }
            "--lane" => {
                cfg.lane = val(i).to_string();
                i += 1;
            }
            "--scale" => {
                cfg.scale = match val(i) {
                    "tiny" => Scale::Tiny,
                    "mid" => Scale::Mid,
                    "full" => Scale::Full,
                    _ => usage(),
                };
                i += 1;
            }
            "--seed" => {
                cfg.seed = val(i).parse().unwrap_or_else(|_| usage());
                i += 1;
            }
            "--shard" => {
                let v = val(i);
                let (k, n) = v.split_once('/').unwrap_or_else(|| usage());
                cfg.shard = k.parse().unwrap_or_else(|_| usage());
                cfg.nshards = n.parse().unwrap_or_else(|_| usage());
                i += 1;
            }
            "--only" => {
                cfg.only = Some(val(i).parse().unwrap_or_else(|_| usage()));
                i += 1;
            }
            "--from" => {
                cfg.from = val(i).parse().unwrap_or_else(|_| usage());
                i += 1;
            }
            "--reps" => {
                reps = val(i).parse().unwrap_or_else(|_| usage());
                i += 1;
            }
            "--trace" => cfg.trace = true,
            "--list" => cfg.list = true,
            _ => usage(),
        }
        i += 1;
    }

    crate::outcome::install_hook();
    crate::set_tiny(cfg.scale == Scale::Tiny);
    // --reps R: the whole catalogue is generated R times with R derived seeds (the mandatory boundary
    // cases repeat, everything seeded — inputs, tie orders, query plans, histories — is new)
    let mut cases = cases_fn(&cfg);
    for r in 1..reps {
        let mut c2 = cfg.clone();
        let mut x = cfg.seed ^ r.wrapping_mul(0xA076_1D64_78BD_642F);
        c2.seed = crate::prng::splitmix(&mut x);
        c2.rep = r;
        cases.extend(cases_fn(&c2));
    }
    let assign = shard_of(&cases, cfg.nshards.max(1));
    let mut rep = Rep::new(cfg.clone());
    if cfg.list {
        for (idx, c) in cases.iter().enumerate() {
            println!("{}\t{}\t{}\t{}\t{}", idx, assign[idx], c.ty, c.class, c.desc.to_string());
        }
        return;
    }
    for (idx, c) in cases.iter().enumerate() {
        if let Some(o) = cfg.only {
            if o != idx {
                continue;
            }
        } else if assign[idx] != cfg.shard || idx < cfg.from {
            continue;
        }
        rep.begin_case(idx, &c.ty, &c.class, &c.desc);
        (c.run)(&mut rep);
        rep.end_case();
    }
    rep.finish();
}
