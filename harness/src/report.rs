//! Reporter: JSON-lines protocol between a worker and the orchestrator.
//!
//! line types (`t`): `case` (write-ahead journal: printed and flushed *before* the case runs),
//! `op` (only in --trace mode: printed before each operation), `event` (sampled operation
//! records), `viol` (violation with witness), `stats` (final counters; its presence means the
//! worker reached its end).

use crate::json::J;
use crate::outcome::Out;
use std::collections::{BTreeMap, BTreeSet};
use std::io::Write;

#[derive(Clone, Copy, Debug, PartialEq, Eq)]
pub enum Tier {
    Quick,
    Thorough,
}

/// How big the workload may be. Derived from the lane: native optimised lanes get `Full`,
/// debug/sanitizer lanes `Mid`, interpreters (Miri, valgrind) `Tiny`.
#[derive(Clone, Copy, Debug, PartialEq, Eq, PartialOrd, Ord)]
pub enum Scale {
    Tiny,
    Mid,
    Full,
}

#[derive(Clone, Debug)]
pub struct Cfg {
    pub prop: String,
    pub tier: Tier,
    pub lane: String,
    pub scale: Scale,
    pub seed: u64,
    pub shard: usize,
    pub nshards: usize,
    pub only: Option<usize>,
    pub from: usize,
    pub trace: bool,
    pub list: bool,
    /// index of the catalogue replica (--reps); 0 for the base catalogue
    pub rep: u64,
}

impl Cfg {
    pub fn thorough(&self) -> bool {
        self.tier == Tier::Thorough
    }
    /// debug assertions on in this build?
    pub fn debug_build(&self) -> bool {
        cfg!(debug_assertions)
    }
}

pub enum Exp<T> {
    /// exactly this value
    Is(T),
    /// one of two values (used only where the property statement allows both)
    Either(T, T),
    /// a documented panic is permitted; a value is not
    PanicOnly,
    /// a documented panic, or exactly this value
    PanicOr(T),
    /// any value, but no panic
    AnyVal,
    /// a value satisfying the predicate described by the string
    Pred(&'static str, Box<dyn Fn(&T) -> bool>),
}

impl<T: PartialEq + std::fmt::Debug> Exp<T> {
    pub fn accepts(&self, got: &Out<T>) -> bool {
        match (self, got) {
            (Exp::Is(e), Out::Val(v)) => e == v,
            (Exp::Either(a, b), Out::Val(v)) => a == v || b == v,
            (Exp::PanicOnly, Out::Panic(_)) => true,
            (Exp::PanicOr(_), Out::Panic(_)) => true,
            (Exp::PanicOr(e), Out::Val(v)) => e == v,
            (Exp::AnyVal, Out::Val(_)) => true,
            (Exp::Pred(_, f), Out::Val(v)) => f(v),
            _ => false,
        }
    }
    pub fn describe(&self) -> String {
        match self {
            Exp::Is(e) => format!("{:?}", e),
            Exp::Either(a, b) => format!("{:?} or {:?}", a, b),
            Exp::PanicOnly => "documented panic".into(),
            Exp::PanicOr(e) => format!("documented panic or {:?}", e),
            Exp::AnyVal => "any value, no panic".into(),
            Exp::Pred(d, _) => format!("value with {}", d),
        }
    }
}

pub fn kind_of<T>(got: &Out<T>) -> String {
    match got {
        Out::Val(_) => "wrong_value".into(),
        Out::Panic(p) => format!("panic:{}", p.class()),
    }
}

pub struct Rep {
    pub cfg: Cfg,
    out: std::io::BufWriter<std::io::Stdout>,
    pub trace: bool,
    case_idx: usize,
    case_ty: String,
    case_class: String,
    case_nontrivial: bool,
    case_viols: u32,
    case_events: u32,
    case_evals0: u64,
    case_event_cap: u32,
    case_events_by_op: BTreeMap<String, u32>,
    case_viols_by_op: BTreeMap<String, u32>,
    pub case_tags: Vec<String>,
    cases_run: u64,
    evals: u64,
    per_op: BTreeMap<&'static str, u64>,
    classes: BTreeSet<String>,
    viols: u64,
    viols_suppressed: u64,
    gates_max: BTreeMap<String, u64>,
    gates_sum: BTreeMap<String, u64>,
    gates_set: BTreeMap<String, BTreeSet<String>>,
    event_budget_cases: u64,
}

pub const MAX_VIOLS_PER_CASE: u32 = 60;
pub const MAX_VIOLS_PER_OP: u32 = 3;
pub const EVENTS_PER_CASE: u32 = 3;

impl Rep {
    pub fn new(cfg: Cfg) -> Self {
        let trace = cfg.trace;
        Rep {
            cfg,
            out: std::io::BufWriter::with_capacity(1 << 16, std::io::stdout()),
            trace,
            case_idx: 0,
            case_ty: String::new(),
            case_class: String::new(),
            case_nontrivial: false,
            case_viols: 0,
            case_events: 0,
            case_evals0: 0,
            case_event_cap: EVENTS_PER_CASE,
            case_events_by_op: BTreeMap::new(),
            case_viols_by_op: BTreeMap::new(),
            case_tags: Vec::new(),
            cases_run: 0,
            evals: 0,
            per_op: BTreeMap::new(),
            classes: BTreeSet::new(),
            viols: 0,
            viols_suppressed: 0,
            gates_max: BTreeMap::new(),
            gates_sum: BTreeMap::new(),
            gates_set: BTreeMap::new(),
            event_budget_cases: 12,
        }
    }

    fn line(&mut self, j: J, flush: bool) {
        let mut s = j.to_string();
        s.push('\n');
        let _ = self.out.write_all(s.as_bytes());
        if flush {
            let _ = self.out.flush();
        }
    }

    pub fn begin_case(&mut self, idx: usize, ty: &str, class: &str, desc: &J) {
        self.case_idx = idx;
        self.case_ty = ty.to_string();
        self.case_class = class.to_string();
        self.case_nontrivial = false;
        self.case_viols = 0;
        self.case_events = 0;
        self.case_evals0 = self.evals;
        self.case_event_cap = EVENTS_PER_CASE;
        self.case_events_by_op.clear();
        self.case_viols_by_op.clear();
        self.case_tags.clear();
        self.cases_run += 1;
        let j = J::obj()
            .set("t", "case")
            .set("idx", idx)
            .set("ty", ty)
            .set("class", class)
            .set("desc", desc.clone());
        self.line(j, true);
    }

    pub fn end_case(&mut self) {
        let j = J::obj()
            .set("t", "done")
            .set("idx", self.case_idx)
            .set("evals", self.evals - self.case_evals0)
            .set("nontrivial", self.case_nontrivial)
            .set("viols", self.case_viols);
        if self.case_nontrivial {
            let c = std::mem::take(&mut self.case_class);
            self.classes.insert(c);
        }
        self.line(j, true);
    }

    /// mark the running case as non-trivial (n >= 2 and a successful non-None answer was checked)
    #[inline]
    pub fn nontrivial(&mut self) {
        self.case_nontrivial = true;
    }

    pub fn tag(&mut self, t: &str) {
        if !self.case_tags.iter().any(|x| x == t) {
            self.case_tags.push(t.to_string());
            // also journalled, so that a process death inside the case inherits the tag
            let j = J::obj().set("t", "note").set("idx", self.case_idx).set("key", "tag").set("v", t);
            self.line(j, true);
        }
    }

    #[inline]
    pub fn tick(&mut self, op: &'static str) {
        self.evals += 1;
        *self.per_op.entry(op).or_insert(0) += 1;
    }
    #[inline]
    /// n individual oracle comparisons performed outside `chk!` (e.g. by worker threads)
    pub fn tick_evals(&mut self, op: &'static str, n: u64) {
        self.evals += n;
        *self.per_op.entry(op).or_insert(0) += n;
    }
    /// bulk item comparisons (e.g. whole-sequence iterator equality): recorded per operation but
    /// deliberately NOT added to the evaluation count, which counts individual oracle comparisons
    pub fn tick_n(&mut self, op: &'static str, n: u64) {
        *self.per_op.entry(op).or_insert(0) += n;
    }

    pub fn journal(&mut self, op: &str, args: &str) {
        let j = J::obj()
            .set("t", "op")
            .set("idx", self.case_idx)
            .set("op", op)
            .set("args", args);
        self.line(j, true);
    }

    pub fn viol(&mut self, op: &str, args: String, exp: String, got: String, kind: String) {
        self.viols += 1;
        self.case_viols += 1;
        // flood control is per (case, operation), so that one noisy (possibly known) finding
        // cannot use up the budget and hide a different violation in the same case
        let per_op = self.case_viols_by_op.entry(op.to_string()).or_insert(0);
        *per_op += 1;
        if *per_op > MAX_VIOLS_PER_OP || self.case_viols > MAX_VIOLS_PER_CASE {
            self.viols_suppressed += 1;
            return;
        }
        let tags: Vec<J> = self.case_tags.iter().map(|t| J::Str(t.clone())).collect();
        let j = J::obj()
            .set("t", "viol")
            .set("idx", self.case_idx)
            .set("ty", self.case_ty.clone())
            .set("op", op)
            .set("args", args)
            .set("exp", exp)
            .set("got", got)
            .set("kind", kind)
            .set("tags", J::Arr(tags));
        self.line(j, true);
    }

    /// op-aware variant used by `chk!`: for dumped inputs up to 25 events per operation
    #[inline]
    pub fn want_event_for(&self, op: &str) -> bool {
        if self.case_event_cap > EVENTS_PER_CASE {
            return self.case_events_by_op.get(op).copied().unwrap_or(0) < 25;
        }
        self.want_event()
    }

    #[inline]
    pub fn want_event(&self) -> bool {
        if self.case_event_cap > EVENTS_PER_CASE {
            return self.case_events < self.case_event_cap;
        }
        // default sampling: the 5th, 50th and 500th comparison of each of the first cases of a worker
        // (spread over the battery instead of the three scalar queries it starts with)
        let n = self.evals - self.case_evals0;
        self.case_events < self.case_event_cap && self.cases_run <= self.event_budget_cases && (n == 5 || n == 50 || n == 500)
    }

    /// record up to `n` events of the running case (used for small inputs that are dumped in full,
    /// so that run/logcheck.py can re-check them with its own model)
    pub fn allow_events(&mut self, n: u32) {
        self.case_event_cap = n;
    }

    pub fn event(&mut self, op: &str, args: String, got: String) {
        self.case_events += 1;
        *self.case_events_by_op.entry(op.to_string()).or_insert(0) += 1;
        let j = J::obj()
            .set("t", "event")
            .set("idx", self.case_idx)
            .set("op", op)
            .set("args", args)
            .set("got", got);
        self.line(j, false);
    }

    /// free-form observation attached to the case (e.g. a recorded code table)
    pub fn note(&mut self, key: &str, v: J) {
        let j = J::obj()
            .set("t", "note")
            .set("idx", self.case_idx)
            .set("key", key)
            .set("v", v);
        self.line(j, false);
    }

    pub fn gate_max(&mut self, name: &str, v: u64) {
        let e = self.gates_max.entry(name.to_string()).or_insert(0);
        if v > *e {
            *e = v;
        }
    }
    pub fn gate_add(&mut self, name: &str, v: u64) {
        *self.gates_sum.entry(name.to_string()).or_insert(0) += v;
    }
    pub fn gate_set(&mut self, name: &str, member: String) {
        let s = self.gates_set.entry(name.to_string()).or_default();
        if s.len() < 4096 {
            s.insert(member);
        }
    }

    pub fn finish(&mut self) {
        let per_op = J::Obj(
            self.per_op
                .iter()
                .map(|(k, v)| (k.to_string(), J::UInt(*v as u128)))
                .collect(),
        );
        let classes = J::Arr(self.classes.iter().map(|c| J::Str(c.clone())).collect());
        let gm = J::Obj(
            self.gates_max
                .iter()
                .map(|(k, v)| (k.clone(), J::UInt(*v as u128)))
                .collect(),
        );
        let gs = J::Obj(
            self.gates_sum
                .iter()
                .map(|(k, v)| (k.clone(), J::UInt(*v as u128)))
                .collect(),
        );
        let gset = J::Obj(
            self.gates_set
                .iter()
                .map(|(k, v)| {
                    (
                        k.clone(),
                        J::Arr(v.iter().map(|s| J::Str(s.clone())).collect()),
                    )
                })
                .collect(),
        );
        let j = J::obj()
            .set("t", "stats")
            .set("cases", self.cases_run)
            .set("evals", self.evals)
            .set("viols", self.viols)
            .set("viols_suppressed", self.viols_suppressed)
            .set("per_op", per_op)
            .set("classes", classes)
            .set("gates_max", gm)
            .set("gates_sum", gs)
            .set("gates_set", gset)
            .set("debug_assertions", cfg!(debug_assertions))
            .set("prefetch_feature", cfg!(feature = "prefetch"));
        self.line(j, true);
    }
}

/// Run `$call` under the panic guard, count it, compare with the expectation, report.
/// Evaluates to the `Out<T>`.
#[macro_export]
macro_rules! chk {
    ($rep:expr, $op:expr, $args:expr, $exp:expr, $call:expr) => {{
        if $rep.trace {
            let a = format!("{:?}", $args);
            $rep.journal($op, &a);
        }
        let got = $crate::outcome::guard(|| $call);
        $rep.tick($op);
        let exp = $exp;
        if !exp.accepts(&got) {
            $rep.viol(
                $op,
                format!("{:?}", $args),
                exp.describe(),
                format!("{:?}", got),
                $crate::report::kind_of(&got),
            );
        } else if $rep.want_event_for($op) {
            $rep.event($op, format!("{:?}", $args), format!("{:?}", got));
        }
        got
    }};
}
