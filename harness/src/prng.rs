//! Seeded PRNG (splitmix64 + xoshiro256**). No wall clock, no OS entropy: every case is a pure
//! function of (VERIF_SEED, property, case index).

#[derive(Clone, Debug)]
pub struct Rng {
    s: [u64; 4],
}

pub fn splitmix(x: &mut u64) -> u64 {
    *x = x.wrapping_add(0x9E37_79B9_7F4A_7C15);
    let mut z = *x;
    z = (z ^ (z >> 30)).wrapping_mul(0xBF58_476D_1CE4_E5B9);
    z = (z ^ (z >> 27)).wrapping_mul(0x94D0_49BB_1331_11EB);
    z ^ (z >> 31)
}

pub fn hash_str(s: &str) -> u64 {
    // FNV-1a
    let mut h: u64 = 0xcbf29ce484222325;
    for b in s.bytes() {
        h ^= b as u64;
        h = h.wrapping_mul(0x100000001b3);
    }
    h
}

impl Rng {
    pub fn new(seed: u64) -> Self {
        let mut x = seed;
        let s = [splitmix(&mut x), splitmix(&mut x), splitmix(&mut x), splitmix(&mut x)];
        Rng { s }
    }
    /// Derive a generator from a tuple of keys.
    pub fn derive(seed: u64, tag: &str, idx: u64) -> Self {
        let mut x = seed ^ hash_str(tag).rotate_left(17) ^ idx.wrapping_mul(0xD6E8_FEB8_6659_FD93);
        let a = splitmix(&mut x);
        Rng::new(a ^ idx)
    }
    #[inline]
    pub fn u64(&mut self) -> u64 {
        let r = self.s[1].wrapping_mul(5).rotate_left(7).wrapping_mul(9);
        let t = self.s[1] << 17;
        self.s[2] ^= self.s[0];
        self.s[3] ^= self.s[1];
        self.s[1] ^= self.s[2];
        self.s[0] ^= self.s[3];
        self.s[2] ^= t;
        self.s[3] = self.s[3].rotate_left(45);
        r
    }
    #[inline]
    pub fn u128(&mut self) -> u128 {
        ((self.u64() as u128) << 64) | self.u64() as u128
    }
    /// Uniform in [0, n) (n > 0).
    #[inline]
    pub fn below(&mut self, n: u64) -> u64 {
        debug_assert!(n > 0);
        ((self.u64() as u128 * n as u128) >> 64) as u64
    }
    #[inline]
    pub fn usize_below(&mut self, n: usize) -> usize {
        self.below(n as u64) as usize
    }
    /// Uniform in [lo, hi] inclusive.
    pub fn range(&mut self, lo: usize, hi: usize) -> usize {
        lo + self.usize_below(hi - lo + 1)
    }
    #[inline]
    pub fn chance(&mut self, num: u64, den: u64) -> bool {
        self.below(den) < num
    }
    #[inline]
    pub fn bool(&mut self) -> bool {
        self.u64() & 1 == 1
    }
    pub fn f64(&mut self) -> f64 {
        (self.u64() >> 11) as f64 / (1u64 << 53) as f64
    }
    pub fn pick<'a, T>(&mut self, v: &'a [T]) -> &'a T {
        &v[self.usize_below(v.len())]
    }
    pub fn shuffle<T>(&mut self, v: &mut [T]) {
        for i in (1..v.len()).rev() {
            let j = self.usize_below(i + 1);
            v.swap(i, j);
        }
    }
}
