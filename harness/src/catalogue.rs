//! Catalogues of input specifications: the mandatory boundary-directed cases plus seeded random
//! ones. A catalogue is a pure function of (scale, tier, element width, seed).

use crate::gen::*;
use crate::prng::Rng;
use crate::report::{Scale, Tier};

pub struct Limits {
    pub max_n: usize,
    pub big_n: usize,
    pub n_random: usize,
}

pub fn limits(scale: Scale, tier: Tier) -> Limits {
    match (scale, tier) {
        (Scale::Tiny, Tier::Quick) => Limits { max_n: 520, big_n: 0, n_random: 1 },
        (Scale::Tiny, Tier::Thorough) => Limits { max_n: 1600, big_n: 0, n_random: 6 },
        (Scale::Mid, Tier::Quick) => Limits { max_n: 9000, big_n: 40_000, n_random: 6 },
        (Scale::Mid, Tier::Thorough) => Limits { max_n: 70_000, big_n: 300_000, n_random: 30 },
        (Scale::Full, Tier::Quick) => Limits { max_n: 40_000, big_n: 300_000, n_random: 12 },
        (Scale::Full, Tier::Thorough) => Limits { max_n: 70_000, big_n: 4_000_000, n_random: 120 },
    }
}

fn rot<'a, T>(v: &'a [T], i: usize) -> &'a T {
    &v[i % v.len()]
}

/// alphabets for plain trees over an element type of `bits` bits
pub fn plain_alphabets(bits: u32) -> Vec<Alpha> {
    let tmax = type_max(bits);
    let mut v = vec![
        Alpha::Single(0),
        Alpha::Single(1),
        Alpha::Single(3),
        Alpha::Single(tmax),
        Alpha::Dense(2),
        Alpha::Dense(3),
        Alpha::Dense(4),
        Alpha::Dense(5),
        Alpha::Dense(15),
        Alpha::Dense(16),
        Alpha::Dense(17),
        Alpha::Dense(63),
        Alpha::Dense(64),
        Alpha::Dense(65),
        Alpha::Dense(255),
        Alpha::Dense(256),
        Alpha::Explicit(vec![0, tmax]),
        Alpha::Explicit(vec![tmax - 1, tmax]),
        Alpha::Top(5),
        Alpha::Top(40),
        Alpha::Pow2,
        Alpha::Holes { k: 7, max: tmax },
        Alpha::Holes { k: 100, max: tmax },
        Alpha::Holes { k: 20, max: tmax / 2 },
        Alpha::Holes { k: 20, max: tmax / 4 },
    ];
    if bits > 8 {
        v.extend([
            Alpha::Dense(257),
            Alpha::Dense(1023),
            Alpha::Dense(1024),
            Alpha::Dense(1025),
            Alpha::Holes { k: 300, max: 65535 },
            Alpha::DenseFrom(250, 12),
        ]);
    }
    if bits > 16 {
        v.extend([
            Alpha::Holes { k: 50, max: (1 << 20) + 1 },
            Alpha::Holes { k: 9, max: (1u128 << 31) + 5 },
            Alpha::DenseFrom(65530, 12),
            Alpha::Dense(4097),
        ]);
    }
    if bits > 32 {
        v.extend([
            Alpha::Holes { k: 9, max: (1u128 << 32) + 1 },
            Alpha::Holes { k: 30, max: (1u128 << 40) + 3 },
            Alpha::DenseFrom((1u128 << 32) - 3, 8),
            Alpha::Holes { k: 12, max: (1u128 << 63) + 11 },
        ]);
    }
    if bits > 64 {
        v.extend([
            Alpha::Holes { k: 9, max: (1u128 << 64) + 1 },
            Alpha::DenseFrom((1u128 << 64) - 3, 8),
            Alpha::Explicit(vec![3, 5, 1u128 << 70, (1u128 << 70) + 1]),
            Alpha::Holes { k: 25, max: (1u128 << 100) + 77 },
            Alpha::Explicit(vec![1u128 << 127, (1u128 << 127) + 1, 7]),
        ]);
    }
    v
}

/// interpreter lanes: alphabets that are realised from the element type's own width (`Top`, `Pow2`) or that name
/// wide values explicitly are folded into `bits` bits, so that the depth cap of the Tiny scale really bounds the tree
fn cap_alpha(a: Alpha, bits: u32) -> Alpha {
    let tmax = type_max(bits);
    match a {
        Alpha::Top(k) => Alpha::Explicit((0..k as u128).map(|j| tmax - j.min(tmax)).collect()),
        Alpha::Pow2 => Alpha::Explicit(std::iter::once(0u128).chain((0..bits.min(128)).map(|j| 1u128 << j)).collect()),
        Alpha::Holes { k, max } => Alpha::Holes { k, max: max.min(tmax) },
        Alpha::DenseFrom(lo, k) => Alpha::DenseFrom(lo.min(tmax.saturating_sub(k as u128)), k),
        Alpha::Explicit(v) => {
            let mut w: Vec<u128> = v.into_iter().map(|x| x.min(tmax)).collect();
            w.sort_unstable();
            w.dedup();
            Alpha::Explicit(w)
        }
        Alpha::Single(v) => Alpha::Single(v.min(tmax)),
        other => other,
    }
}

const DISTS: [fn() -> Dist; 6] = [
    || Dist::Uniform,
    || Dist::Zipf,
    || Dist::Equal,
    || Dist::Geometric(2.0),
    || Dist::Dominant,
    || Dist::Random,
];
fn layouts(i: usize) -> Layout {
    match i % 8 {
        0 => Layout::Iid,
        1 => Layout::Sorted,
        2 => Layout::Blocks(700),
        3 => Layout::Periodic,
        4 => Layout::RareFirst,
        5 => Layout::RareLast,
        6 => Layout::FreqAfterRare,
        _ => Layout::Iid,
    }
}

/// specs for plain (non-Huffman) trees
pub fn plain_tree_specs(scale: Scale, tier: Tier, bits: u32, seed: u64) -> Vec<SeqSpec> {
    let lim = limits(scale, tier);
    let mut rng = Rng::derive(seed, "plain_tree_specs", bits as u64);
    // interpreters, quick tier: keep the trees shallow (a 64-level tree costs minutes under Miri);
    // wide values are the business of the native lanes and of the thorough tier
    let bits = if scale == Scale::Tiny { bits.min(if tier == Tier::Quick { 20 } else { 40 }) } else { bits };
    let alphas: Vec<Alpha> = if scale == Scale::Tiny { plain_alphabets(bits).into_iter().map(|a| cap_alpha(a, bits)).collect() } else { plain_alphabets(bits) };
    let mut out = Vec::new();
    let mut k = rng.usize_below(1000);
    // (1) every boundary length, alphabets/distributions/layouts rotated
    for n in boundary_lengths(lim.max_n) {
        out.push(SeqSpec {
            n,
            alpha: rot(&alphas, k).clone(),
            dist: rot(&DISTS, k / 3)(),
            layout: layouts(k / 2),
            seed: rng.u64(),
        });
        k += 1;
    }
    // (2) every alphabet shape at a moderate length
    let n_mid = lim.max_n.min(3000);
    for (j, a) in alphas.iter().enumerate() {
        out.push(SeqSpec {
            n: n_mid - (j % 7),
            alpha: a.clone(),
            dist: rot(&DISTS, j + k)(),
            layout: layouts(j + k),
            seed: rng.u64(),
        });
    }
    // (3) long inputs: many select samples of one symbol, a symbol absent from many superblocks,
    //     several prefetch sampling periods
    if lim.big_n > 0 {
        let b = lim.big_n;
        out.push(SeqSpec { n: b / 10 + 1, alpha: Alpha::Single(2), dist: Dist::Equal, layout: Layout::Sorted, seed: rng.u64() });
        out.push(SeqSpec { n: b + 1, alpha: Alpha::Dense(4), dist: Dist::Dominant, layout: Layout::Iid, seed: rng.u64() });
        out.push(SeqSpec { n: b - 1, alpha: Alpha::Dense(4), dist: Dist::Equal, layout: Layout::Sorted, seed: rng.u64() });
        out.push(SeqSpec { n: b / 2 + 3, alpha: Alpha::Dense(17), dist: Dist::Zipf, layout: Layout::Blocks(5000), seed: rng.u64() });
        out.push(SeqSpec { n: b / 3, alpha: Alpha::Dense(200), dist: Dist::Uniform, layout: Layout::Iid, seed: rng.u64() });
        out.push(SeqSpec { n: b / 4, alpha: Alpha::Holes { k: 50, max: type_max(bits) }, dist: Dist::Geometric(1.5), layout: Layout::FreqAfterRare, seed: rng.u64() });
    }
    // (3b) first occurrences of whole symbol groups on / next to the last position of a superblock
    if scale != Scale::Tiny {
        for (j, lead) in [2046usize, 2047, 2048, 4095, 4096, 255, 511].into_iter().enumerate() {
            for (a, top) in [(Alpha::Dense(16), 1usize), (Alpha::Dense(5), 1), (Alpha::Dense(64), 3)] {
                if scale == Scale::Mid && (j + top) % 2 == 0 {
                    continue;
                }
                out.push(SeqSpec { n: lead * 2 + 9000, alpha: a, dist: Dist::Dominant, layout: Layout::RareBlockAfter { lead, top }, seed: rng.u64() });
            }
        }
    }
    // (4) seeded random specs
    for _ in 0..lim.n_random {
        let n = match rng.below(4) {
            0 => rng.range(0, 70),
            1 => rng.range(70, 3000),
            _ => rng.range(3000, lim.max_n.max(3001)),
        };
        out.push(SeqSpec {
            n,
            alpha: rng.pick(&alphas).clone(),
            dist: rot(&DISTS, rng.usize_below(6))(),
            layout: layouts(rng.usize_below(8)),
            seed: rng.u64(),
        });
    }
    out
}

/// alphabets for Huffman-shaped trees: the structure keeps a table indexed by symbol value, so
/// values stay <= 2^22 (larger values mean "allocation failure", which the properties exclude)
pub fn huff_alphabets(bits: u32) -> Vec<Alpha> {
    let cap = type_max(bits).min(1 << 20);
    let mut v = vec![
        Alpha::Single(0),
        Alpha::Single(1),
        Alpha::Single(cap.min(200)),
        Alpha::Dense(2),
        Alpha::Dense(3),
        Alpha::Dense(4),
        Alpha::Dense(5),
        Alpha::Dense(6),
        Alpha::Dense(7),
        Alpha::Dense(8),
        Alpha::Dense(13),
        Alpha::Dense(16),
        Alpha::Dense(17),
        Alpha::Dense(22),
        Alpha::Dense(64),
        Alpha::Dense(65),
        Alpha::Dense(200),
        Alpha::Dense(256),
        Alpha::DenseFrom(3, 5),
        Alpha::Holes { k: 9, max: 255 },
        Alpha::Holes { k: 40, max: 255 },
        Alpha::Explicit(vec![0, 255]),
        Alpha::Explicit(vec![254, 255]),
    ];
    if bits > 8 {
        v.extend([
            Alpha::Dense(257),
            Alpha::Dense(1000),
            Alpha::Holes { k: 30, max: 65535 },
            Alpha::Holes { k: 300, max: 5000 },
            Alpha::Explicit(vec![1, 2, 3, 256, 257]),
        ]);
    }
    if bits > 16 {
        v.extend([
            Alpha::Holes { k: 12, max: cap },
            Alpha::Holes { k: 100, max: (1 << 18) + 1 },
            Alpha::Explicit(vec![1, 2, 3, 65536 + 1, 65536 + 2]),
        ]);
    }
    v
}

const HDISTS: [fn() -> Dist; 9] = [
    || Dist::Uniform,
    || Dist::Equal,
    || Dist::Zipf,
    || Dist::Geometric(2.0),
    || Dist::Geometric(2.5),
    || Dist::Geometric(3.0),
    || Dist::Geometric(4.0),
    || Dist::Dominant,
    || Dist::Random,
];

/// specs for Huffman-shaped trees (arity 4 for quad, 2 for binary)
pub fn huff_tree_specs(scale: Scale, tier: Tier, bits: u32, arity: usize, seed: u64) -> Vec<SeqSpec> {
    let lim = limits(scale, tier);
    let mut rng = Rng::derive(seed, "huff_tree_specs", bits as u64 * 8 + arity as u64);
    // interpreters: the structure allocates and scans a table indexed by symbol value; keep values
    // small there (a 2^20-entry table alone costs minutes under Miri)
    let alphas = if scale == Scale::Tiny { huff_alphabets(bits.min(if tier == Tier::Quick { 8 } else { 12 })) } else { huff_alphabets(bits) };
    let mut out = Vec::new();
    let mut k = rng.usize_below(1000);
    for n in boundary_lengths(lim.max_n) {
        out.push(SeqSpec {
            n,
            alpha: rot(&alphas, k).clone(),
            dist: rot(&HDISTS, k / 2)(),
            layout: layouts(k / 3),
            seed: rng.u64(),
        });
        k += 1;
    }
    // every alphabet size 1..=70 (all 4-ary / binary code shapes incl. incomplete ones)
    let step = if scale == Scale::Full { 1 } else if scale == Scale::Mid { 3 } else { 9 };
    let n_mid = lim.max_n.min(2500);
    for size in (1..=70usize).step_by(step) {
        if size as u128 > type_max(bits) {
            break;
        }
        out.push(SeqSpec {
            n: n_mid + size,
            alpha: Alpha::Dense(size),
            dist: rot(&HDISTS, size + k)(),
            layout: layouts(size),
            seed: rng.u64(),
        });
    }
    for (j, a) in alphas.iter().enumerate() {
        out.push(SeqSpec {
            n: n_mid - (j % 5),
            alpha: a.clone(),
            dist: rot(&HDISTS, j + k + 1)(),
            layout: layouts(j + k + 1),
            seed: rng.u64(),
        });
    }
    // deep, tie-free code shapes. levels = number of fragments of the longest code.
    let max_levels_by_n = |cap_n: usize| -> usize {
        let mut l = 2;
        while (deep_code_weights(arity, l + 1).iter().sum::<u64>() as usize) <= cap_n {
            l += 1;
        }
        l
    };
    let deep_cap = if lim.big_n > 0 { lim.big_n.min(1_400_000) } else { lim.max_n };
    let top = max_levels_by_n(deep_cap);
    let lo = 3usize;
    let stride = if scale == Scale::Full { 1 } else { ((top - lo) / 4).max(1) };
    let mut l = lo;
    while l <= top {
        let w = deep_code_weights(arity, l);
        if (w.len() as u128) <= type_max(bits).saturating_add(1) {
            out.push(SeqSpec {
                n: w.iter().sum::<u64>() as usize,
                alpha: Alpha::Dense(w.len()),
                dist: Dist::Exact(w),
                layout: layouts(l),
                seed: rng.u64(),
            });
        }
        l += stride;
    }
    // two-branch shapes (two codewords per length): long codes with high bits set
    {
        let mut d = 4usize;
        let dstride = if scale == Scale::Full { 3 } else { 6 };
        loop {
            let w = two_branch_weights(d);
            let n: u64 = w.iter().sum();
            if n as usize > deep_cap || (w.len() as u128) > type_max(bits).saturating_add(1) {
                break;
            }
            out.push(SeqSpec { n: n as usize, alpha: Alpha::Dense(w.len()), dist: Dist::Exact(w), layout: layouts(d), seed: rng.u64() });
            d += dstride;
        }
    }
    if lim.big_n > 0 {
        let b = lim.big_n.min(1_000_000);
        out.push(SeqSpec { n: b / 10 + 1, alpha: Alpha::Single(2), dist: Dist::Equal, layout: Layout::Sorted, seed: rng.u64() });
        out.push(SeqSpec { n: b + 1, alpha: Alpha::Dense(6), dist: Dist::Dominant, layout: Layout::Iid, seed: rng.u64() });
        out.push(SeqSpec { n: b / 2 + 3, alpha: Alpha::Dense(22), dist: Dist::Geometric(2.0), layout: Layout::FreqAfterRare, seed: rng.u64() });
        out.push(SeqSpec { n: b / 3, alpha: Alpha::Dense(200), dist: Dist::Zipf, layout: Layout::Blocks(5000), seed: rng.u64() });
    }
    for _ in 0..lim.n_random {
        let n = match rng.below(4) {
            0 => rng.range(0, 70),
            1 => rng.range(70, 3000),
            _ => rng.range(3000, lim.max_n.max(3001)),
        };
        out.push(SeqSpec {
            n,
            alpha: rng.pick(&alphas).clone(),
            dist: rot(&HDISTS, rng.usize_below(9))(),
            layout: layouts(rng.usize_below(8)),
            seed: rng.u64(),
        });
    }
    out
}

/// an input whose code has two long branches with codewords of 25..27 bits (long codes whose most
/// significant bits are set), n = 2.8 M
pub fn long_two_branch_spec(seed: u64) -> SeqSpec {
    let w = two_branch_weights(27);
    SeqSpec { n: w.iter().sum::<u64>() as usize, alpha: Alpha::Dense(w.len()), dist: Dist::Exact(w), layout: Layout::Iid, seed }
}

/// the input per arity whose longest code is exactly 32 bits: the deepest code the structures
/// support (16 quad levels, n = 1.3 M; 32 binary levels, n = 9.2 M)
pub fn deepest_supported_spec(arity: usize, seed: u64) -> SeqSpec {
    let levels = if arity == 4 { 16 } else { 32 };
    let w = deep_code_weights(arity, levels);
    SeqSpec { n: w.iter().sum::<u64>() as usize, alpha: Alpha::Dense(w.len()), dist: Dist::Exact(w), layout: Layout::Iid, seed }
}

/// the one input per arity whose longest code exceeds 32 bits (known finding D4)
pub fn over32_spec(arity: usize, seed: u64) -> SeqSpec {
    let levels = if arity == 4 { 17 } else { 33 };
    let w = deep_code_weights(arity, levels);
    SeqSpec {
        n: w.iter().sum::<u64>() as usize,
        alpha: Alpha::Dense(w.len()),
        dist: Dist::Exact(w),
        layout: Layout::Iid,
        seed,
    }
}

// ---------------------------------------------------------------------------------------------

pub fn bit_specs(scale: Scale, tier: Tier, seed: u64) -> Vec<BitSpec> {
    let lim = limits(scale, tier);
    let mut rng = Rng::derive(seed, "bit_specs", 0);
    let kinds: Vec<BitKind> = vec![
        BitKind::Density(500),
        BitKind::Density(10),
        BitKind::Density(990),
        BitKind::Density(100),
        BitKind::Zeros,
        BitKind::Ones,
        BitKind::Runs(40),
        BitKind::Runs(700),
        BitKind::Every(64),
        BitKind::ZeroEvery(64),
        BitKind::Every(3),
        BitKind::Clustered { cluster: 100, gap: 3000 },
    ];
    let mut out = Vec::new();
    let mut k = rng.usize_below(100);
    let mut lens = boundary_lengths(lim.max_n.max(70_000).min(if scale == Scale::Tiny { lim.max_n * 4 } else { 70_000 }));
    for extra in [4095usize, 4097, 32767, 32769, 8 * 4096, 8 * 4096 + 1, 16 * 512, 64 * 512 - 1, 64 * 512, 64 * 512 + 1] {
        if extra <= *lens.last().unwrap_or(&0) {
            lens.push(extra);
        }
    }
    lens.sort_unstable();
    lens.dedup();
    for n in lens {
        out.push(BitSpec { n, kind: rot(&kinds, k).clone(), seed: rng.u64() });
        k += 1;
    }
    let n_mid = if scale == Scale::Tiny { 2000 } else { 20_000 };
    for (j, kd) in kinds.iter().enumerate() {
        out.push(BitSpec { n: n_mid + j, kind: kd.clone(), seed: rng.u64() });
    }
    // counts of ones / zeros that reach a hint period exactly on, one before, one after a block or
    // superblock boundary, the next block starting with either bit
    if scale != Scale::Tiny {
        let mut j = 0usize;
        for (period, unit, units) in [(8192usize, 4096usize, 5usize), (8192, 4096, 3), (1024, 512, 5), (1024, 512, 3), (8192, 512, 33), (1024, 64, 40)] {
            for target in [false, true] {
                for delta in [-1i32, 0, 1] {
                    for next in [false, true] {
                        j += 1;
                        if scale == Scale::Mid && j % 3 != 0 {
                            continue;
                        }
                        out.push(BitSpec { n: unit * units + unit + 77, kind: BitKind::CountAligned { period, unit, units, target, delta, next }, seed: rng.u64() });
                    }
                }
            }
        }
    }
    if lim.big_n > 0 {
        let b = lim.big_n;
        // ones / zeros crossing several hint periods (1024 for RSNarrow, 8192 for RSWide)
        out.push(BitSpec { n: b, kind: BitKind::Density(500), seed: rng.u64() });
        out.push(BitSpec { n: b + 1, kind: BitKind::Ones, seed: rng.u64() });
        out.push(BitSpec { n: b - 1, kind: BitKind::Zeros, seed: rng.u64() });
        out.push(BitSpec { n: b / 2, kind: BitKind::Density(30), seed: rng.u64() });
        out.push(BitSpec { n: b / 2 + 7, kind: BitKind::Density(970), seed: rng.u64() });
        out.push(BitSpec { n: b / 3, kind: BitKind::Runs(9000), seed: rng.u64() });
        out.push(BitSpec { n: b / 3 + 1, kind: BitKind::Clustered { cluster: 2000, gap: 40_000 }, seed: rng.u64() });
    }
    for _ in 0..lim.n_random {
        let n = match rng.below(3) {
            0 => rng.range(0, 600),
            1 => rng.range(600, 5000),
            _ => rng.range(5000, lim.max_n.max(5001)),
        };
        out.push(BitSpec { n, kind: rng.pick(&kinds).clone(), seed: rng.u64() });
    }
    out
}

pub fn quad_specs(scale: Scale, tier: Tier, seed: u64) -> Vec<QuadSpec> {
    let lim = limits(scale, tier);
    let mut rng = Rng::derive(seed, "quad_specs", 0);
    let kinds: Vec<QuadKind> = vec![
        QuadKind::Uniform,
        QuadKind::Constant(0),
        QuadKind::Constant(3),
        QuadKind::Constant(1),
        QuadKind::Periodic,
        QuadKind::Runs(30),
        QuadKind::Runs(3000),
        QuadKind::Rare { sym: 2, every: 1000, fill: 0 },
        QuadKind::Rare { sym: 0, every: 129, fill: 3 },
        QuadKind::Skewed,
        QuadKind::TwoSyms(1, 2),
        QuadKind::TwoSyms(0, 3),
    ];
    let mut out = Vec::new();
    let mut k = rng.usize_below(100);
    for n in boundary_lengths(lim.max_n) {
        out.push(QuadSpec { n, kind: rot(&kinds, k).clone(), seed: rng.u64() });
        k += 1;
    }
    let n_mid = lim.max_n.min(6000);
    for (j, kd) in kinds.iter().enumerate() {
        out.push(QuadSpec { n: n_mid + j, kind: kd.clone(), seed: rng.u64() });
    }
    if scale != Scale::Tiny {
        let mut j = 0usize;
        for (unit, units) in [(2048usize, 9usize), (4096, 5), (2048, 17), (256, 70)] {
            for sym in [0u8, 3] {
                for delta in [-1i32, 0, 1] {
                    for next in [false, true] {
                        j += 1;
                        if scale == Scale::Mid && j % 3 != 0 {
                            continue;
                        }
                        out.push(QuadSpec { n: unit * units + unit + 99, kind: QuadKind::CountAligned { unit, units, sym, delta, next }, seed: rng.u64() });
                    }
                }
            }
        }
    }
    if scale != Scale::Tiny {
        // sampled occurrences (the 1st, 8193rd, ... of a symbol) on / next to the last position of a
        // superblock or block
        let mut j = 0usize;
        for pos in [255usize, 256, 511, 512, 2046, 2047, 2048, 4094, 4095, 4096, 4097, 6143, 8191] {
            for sym in [0u8, 2, 3] {
                j += 1;
                if scale == Scale::Mid && j % 2 == 0 {
                    continue;
                }
                out.push(QuadSpec { n: pos + 3000, kind: QuadKind::FirstOccurrenceAt { sym, pos }, seed: rng.u64() });
            }
        }
        for (unit, units) in [(2048usize, 9usize), (4096, 5), (2048, 13)] {
            for sym in [1u8, 3] {
                for back in [0usize, 1, 2] {
                    j += 1;
                    if scale == Scale::Mid && j % 2 == 0 {
                        continue;
                    }
                    out.push(QuadSpec { n: unit * units + 5000, kind: QuadKind::SampleNearBoundary { unit, units, sym, back }, seed: rng.u64() });
                }
            }
        }
    }
    if lim.big_n > 0 {
        let b = lim.big_n;
        out.push(QuadSpec { n: b, kind: QuadKind::Uniform, seed: rng.u64() });
        out.push(QuadSpec { n: b / 2 + 1, kind: QuadKind::Constant(2), seed: rng.u64() });
        out.push(QuadSpec { n: b - 1, kind: QuadKind::Rare { sym: 1, every: b / 3, fill: 2 }, seed: rng.u64() });
        out.push(QuadSpec { n: b / 2, kind: QuadKind::Runs(20_000), seed: rng.u64() });
        out.push(QuadSpec { n: 8192 * 4 + 1, kind: QuadKind::Periodic, seed: rng.u64() });
        out.push(QuadSpec { n: 8192 * 3, kind: QuadKind::Constant(1), seed: rng.u64() });
        out.push(QuadSpec { n: 8192 * 3 + 1, kind: QuadKind::Constant(0), seed: rng.u64() });
        out.push(QuadSpec { n: 8192 * 3 - 1, kind: QuadKind::Constant(3), seed: rng.u64() });
    }
    for _ in 0..lim.n_random {
        let n = match rng.below(3) {
            0 => rng.range(0, 600),
            1 => rng.range(600, 5000),
            _ => rng.range(5000, lim.max_n.max(5001)),
        };
        out.push(QuadSpec { n, kind: rng.pick(&kinds).clone(), seed: rng.u64() });
    }
    out
}
