//! qwt_verif: runtime monitors for the qwt crate (see /verif/DESIGN.md).

pub mod adapters;
pub mod alloc;
pub mod battery;
pub mod catalogue;
pub mod cli;
pub mod gen;
pub mod json;
pub mod model;
pub mod outcome;
pub mod prng;
pub mod props;
pub mod report;

use json::J;
use report::Rep;

/// One unit of work: a structure type + an input specification + the monitor to run on it.
pub struct Case {
    /// structure / type name, e.g. "QWT256<u8>"
    pub ty: String,
    /// coverage class (for the distinct_nontrivial count)
    pub class: String,
    /// everything needed to describe the case to a human (the case itself is regenerated from
    /// (property, tier, lane, seed, index))
    pub desc: J,
    /// rough cost, for balancing shards
    pub weight: u64,
    pub run: Box<dyn Fn(&mut Rep)>,
}

impl Case {
    pub fn new(ty: impl Into<String>, class: impl Into<String>, desc: J, weight: u64, run: impl Fn(&mut Rep) + 'static) -> Case {
        Case { ty: ty.into(), class: class.into(), desc, weight: weight.max(1), run: Box::new(run) }
    }
}

/// Deterministic longest-processing-time assignment of cases to shards.
pub fn shard_of(cases: &[Case], nshards: usize) -> Vec<usize> {
    let mut order: Vec<usize> = (0..cases.len()).collect();
    order.sort_by_key(|&i| (std::cmp::Reverse(cases[i].weight), i));
    let mut load = vec![0u64; nshards];
    let mut assign = vec![0usize; cases.len()];
    for i in order {
        let (s, _) = load.iter().enumerate().min_by_key(|(s, l)| (**l, *s)).unwrap();
        assign[i] = s;
        load[s] += cases[i].weight;
    }
    assign
}

thread_local! {
    /// interpreters (Miri, valgrind) run reduced matrices: same kinds of arguments, fewer of each
    static TINY: std::cell::Cell<bool> = const { std::cell::Cell::new(false) };
}
pub fn set_tiny(v: bool) {
    TINY.with(|t| t.set(v));
}
pub fn tiny() -> bool {
    TINY.with(|t| t.get())
}
