//! Minimal JSON value + serializer (the harness only *emits* JSON; case descriptors are
//! regenerated from seeds, so no parser is needed on the Rust side).

use std::fmt::Write;

#[derive(Clone, Debug, PartialEq)]
pub enum J {
    Null,
    Bool(bool),
    Int(i128),
    UInt(u128),
    F(f64),
    Str(String),
    Arr(Vec<J>),
    Obj(Vec<(String, J)>),
}

impl J {
    pub fn obj() -> J {
        J::Obj(Vec::new())
    }
    pub fn set(mut self, k: &str, v: impl Into<J>) -> J {
        if let J::Obj(ref mut o) = self {
            o.push((k.to_string(), v.into()));
        }
        self
    }
    pub fn put(&mut self, k: &str, v: impl Into<J>) {
        if let J::Obj(ref mut o) = self {
            o.push((k.to_string(), v.into()));
        }
    }
    pub fn get(&self, k: &str) -> Option<&J> {
        if let J::Obj(o) = self {
            o.iter().find(|(kk, _)| kk == k).map(|(_, v)| v)
        } else {
            None
        }
    }
    pub fn write(&self, out: &mut String) {
        match self {
            J::Null => out.push_str("null"),
            J::Bool(b) => out.push_str(if *b { "true" } else { "false" }),
            J::Int(i) => {
                // numbers beyond 2^53 are emitted as strings to survive JSON readers
                if i.unsigned_abs() > (1u128 << 53) {
                    let _ = write!(out, "\"{}\"", i);
                } else {
                    let _ = write!(out, "{}", i);
                }
            }
            J::UInt(u) => {
                if *u > (1u128 << 53) {
                    let _ = write!(out, "\"{}\"", u);
                } else {
                    let _ = write!(out, "{}", u);
                }
            }
            J::F(f) => {
                if f.is_finite() {
                    let _ = write!(out, "{}", f);
                } else {
                    out.push_str("null");
                }
            }
            J::Str(s) => {
                out.push('"');
                for c in s.chars() {
                    match c {
                        '"' => out.push_str("\\\""),
                        '\\' => out.push_str("\\\\"),
                        '\n' => out.push_str("\\n"),
                        '\r' => out.push_str("\\r"),
                        '\t' => out.push_str("\\t"),
                        c if (c as u32) < 0x20 => {
                            let _ = write!(out, "\\u{:04x}", c as u32);
                        }
                        c => out.push(c),
                    }
                }
                out.push('"');
            }
            J::Arr(a) => {
                out.push('[');
                for (i, v) in a.iter().enumerate() {
                    if i > 0 {
                        out.push(',');
                    }
                    v.write(out);
                }
                out.push(']');
            }
            J::Obj(o) => {
                out.push('{');
                for (i, (k, v)) in o.iter().enumerate() {
                    if i > 0 {
                        out.push(',');
                    }
                    J::Str(k.clone()).write(out);
                    out.push(':');
                    v.write(out);
                }
                out.push('}');
            }
        }
    }
    pub fn to_string(&self) -> String {
        let mut s = String::new();
        self.write(&mut s);
        s
    }
}

impl From<bool> for J {
    fn from(v: bool) -> J {
        J::Bool(v)
    }
}
impl From<&str> for J {
    fn from(v: &str) -> J {
        J::Str(v.to_string())
    }
}
impl From<String> for J {
    fn from(v: String) -> J {
        J::Str(v)
    }
}
impl From<f64> for J {
    fn from(v: f64) -> J {
        J::F(v)
    }
}
macro_rules! from_uint { ($($t:ty),*) => { $(impl From<$t> for J { fn from(v: $t) -> J { J::UInt(v as u128) } })* } }
from_uint!(u8, u16, u32, u64, usize, u128);
macro_rules! from_int { ($($t:ty),*) => { $(impl From<$t> for J { fn from(v: $t) -> J { J::Int(v as i128) } })* } }
from_int!(i8, i16, i32, i64, isize, i128);
impl<T: Into<J>> From<Vec<T>> for J {
    fn from(v: Vec<T>) -> J {
        J::Arr(v.into_iter().map(Into::into).collect())
    }
}
impl<T: Into<J>> From<Option<T>> for J {
    fn from(v: Option<T>) -> J {
        match v {
            None => J::Null,
            Some(x) => x.into(),
        }
    }
}
