//! Seeded workload generators shared by the monitors (DESIGN.md §3).

use crate::json::J;
use crate::prng::Rng;

// ---------------------------------------------------------------------------------------------
// integer sequences
// ---------------------------------------------------------------------------------------------

#[derive(Clone, Debug)]
pub enum Alpha {
    /// symbols 0..k
    Dense(usize),
    /// symbols lo..lo+k
    DenseFrom(u128, usize),
    /// k distinct values <= max, max included
    Holes { k: usize, max: u128 },
    /// the k largest values of the element type (type maximum included)
    Top(usize),
    Single(u128),
    /// 0 and every power of two of the element type
    Pow2,
    Explicit(Vec<u128>),
}

#[derive(Clone, Debug)]
pub enum Dist {
    Uniform,
    /// exactly equal counts (maximal ties for the Huffman builder)
    Equal,
    Zipf,
    Geometric(f64),
    /// one symbol takes ~95 %
    Dominant,
    /// random weights
    Random,
    /// exact integer weights (n = their sum); used for deep prefix codes
    Exact(Vec<u64>),
}

#[derive(Clone, Debug)]
pub enum Layout {
    Iid,
    Sorted,
    /// sorted runs cut into blocks of the given length, blocks shuffled
    Blocks(usize),
    Periodic,
    /// the sorted multiset laid out residue class by residue class modulo `p` (positions ≡ 0, then ≡ 1, ...): every
    /// residue class sees only a narrow slice of the alphabet, so anything that looks at every p-th (or k·p-th, or
    /// p/k-th) element gets a badly skewed picture of the distribution
    Strided(usize),
    /// grouped by symbol, rarest symbol first
    RareFirst,
    /// grouped by symbol, rarest symbol last
    RareLast,
    /// all rare symbols (shuffled) first, the most frequent symbol in one run at the end
    FreqAfterRare,
    /// `lead` copies of the most frequent symbol, then every symbol outside the `top` most frequent
    /// ones round-robin in one contiguous block, then the rest round-robin: with lead = 1 and a rare
    /// block of 2048*m symbols, the (2048*m)-th rare occurrence sits exactly on a multiple of the
    /// 2048-symbol sampling period (where a sampled estimate overshoots the real position)
    RareBlockAfter { lead: usize, top: usize },
}

#[derive(Clone, Debug)]
pub struct SeqSpec {
    pub n: usize,
    pub alpha: Alpha,
    pub dist: Dist,
    pub layout: Layout,
    pub seed: u64,
}

impl SeqSpec {
    pub fn to_json(&self) -> J {
        J::obj()
            .set("n", self.n)
            .set("alpha", format!("{:?}", AlphaShort(&self.alpha)))
            .set("dist", format!("{:?}", DistShort(&self.dist)))
            .set("layout", format!("{:?}", self.layout))
            .set("seed", self.seed)
    }
    pub fn class(&self) -> String {
        format!(
            "n{}|a:{}|d:{}|l:{}",
            len_bucket(self.n),
            alpha_class(&self.alpha),
            dist_class(&self.dist),
            layout_class(&self.layout)
        )
    }
}

struct AlphaShort<'a>(&'a Alpha);
impl std::fmt::Debug for AlphaShort<'_> {
    fn fmt(&self, f: &mut std::fmt::Formatter<'_>) -> std::fmt::Result {
        match self.0 {
            Alpha::Explicit(v) if v.len() > 8 => write!(f, "Explicit(len={},max={})", v.len(), v.iter().max().unwrap()),
            a => write!(f, "{:?}", a),
        }
    }
}
struct DistShort<'a>(&'a Dist);
impl std::fmt::Debug for DistShort<'_> {
    fn fmt(&self, f: &mut std::fmt::Formatter<'_>) -> std::fmt::Result {
        match self.0 {
            Dist::Exact(v) if v.len() > 8 => write!(f, "Exact(len={},sum={})", v.len(), v.iter().sum::<u64>()),
            a => write!(f, "{:?}", a),
        }
    }
}

pub fn len_bucket(n: usize) -> &'static str {
    match n {
        0 => "0",
        1 => "1",
        2..=255 => "2-255",
        256..=2047 => "256-2k",
        2048..=8191 => "2k-8k",
        8192..=65535 => "8k-64k",
        65536..=1048575 => "64k-1M",
        _ => ">1M",
    }
}
fn alpha_class(a: &Alpha) -> String {
    match a {
        Alpha::Dense(k) => format!("dense{}", size_bucket(*k)),
        Alpha::DenseFrom(_, k) => format!("densefrom{}", size_bucket(*k)),
        Alpha::Holes { k, .. } => format!("holes{}", size_bucket(*k)),
        Alpha::Top(k) => format!("top{}", size_bucket(*k)),
        Alpha::Single(v) => {
            if *v == 0 {
                "single0".into()
            } else {
                "singleNZ".into()
            }
        }
        Alpha::Pow2 => "pow2".into(),
        Alpha::Explicit(v) => format!("explicit{}", size_bucket(v.len())),
    }
}
fn size_bucket(k: usize) -> &'static str {
    match k {
        0..=1 => "1",
        2 => "2",
        3..=4 => "3-4",
        5..=16 => "5-16",
        17..=64 => "17-64",
        65..=256 => "65-256",
        257..=1024 => "257-1k",
        _ => ">1k",
    }
}
fn dist_class(d: &Dist) -> &'static str {
    match d {
        Dist::Uniform => "uniform",
        Dist::Equal => "equal",
        Dist::Zipf => "zipf",
        Dist::Geometric(_) => "geometric",
        Dist::Dominant => "dominant",
        Dist::Random => "random",
        Dist::Exact(_) => "exact",
    }
}
fn layout_class(l: &Layout) -> &'static str {
    match l {
        Layout::Iid => "iid",
        Layout::Sorted => "sorted",
        Layout::Blocks(_) => "blocks",
        Layout::Periodic => "periodic",
        Layout::Strided(_) => "strided",
        Layout::RareFirst => "rarefirst",
        Layout::RareLast => "rarelast",
        Layout::FreqAfterRare => "freqafterrare",
        Layout::RareBlockAfter { .. } => "rareblockafter",
    }
}

/// maximum value representable with `bits` bits
pub fn type_max(bits: u32) -> u128 {
    if bits >= 128 {
        u128::MAX
    } else {
        (1u128 << bits) - 1
    }
}

/// sorted distinct symbol values of the alphabet, all <= type_max(bits)
pub fn alpha_values(alpha: &Alpha, bits: u32, rng: &mut Rng) -> Vec<u128> {
    let tmax = type_max(bits);
    let mut v: Vec<u128> = match alpha {
        Alpha::Dense(k) => (0..*k as u128).collect(),
        Alpha::DenseFrom(lo, k) => (0..*k as u128).map(|j| lo.saturating_add(j)).collect(),
        Alpha::Holes { k, max } => {
            let max = (*max).min(tmax);
            let mut s = std::collections::BTreeSet::new();
            s.insert(max);
            let want = (*k as u128).min(max.saturating_add(1)) as usize;
            let mut guard = 0;
            while s.len() < want && guard < 100 * want {
                let r = if max == u128::MAX { rng.u128() } else { rng.u128() % (max + 1) };
                s.insert(r);
                guard += 1;
            }
            s.into_iter().collect()
        }
        Alpha::Top(k) => (0..*k as u128).map(|j| tmax - j.min(tmax)).collect(),
        Alpha::Single(v) => vec![*v],
        Alpha::Pow2 => {
            let mut v = vec![0u128];
            for j in 0..bits.min(128) {
                v.push(1u128 << j);
            }
            v
        }
        Alpha::Explicit(v) => v.clone(),
    };
    for x in v.iter_mut() {
        if *x > tmax {
            *x = tmax;
        }
    }
    v.sort_unstable();
    v.dedup();
    v
}

fn counts_from_weights(w: &[f64], n: usize) -> Vec<usize> {
    let k = w.len();
    let total: f64 = w.iter().sum();
    let mut counts: Vec<usize> = w.iter().map(|x| ((x / total) * n as f64).floor() as usize).collect();
    let mut assigned: usize = counts.iter().sum();
    // leftovers to the symbols with the largest weights, round robin
    let mut order: Vec<usize> = (0..k).collect();
    order.sort_by(|&a, &b| w[b].partial_cmp(&w[a]).unwrap());
    let mut j = 0;
    while assigned < n {
        counts[order[j % k]] += 1;
        assigned += 1;
        j += 1;
    }
    // every symbol of the alphabet occurs at least once when n allows it
    if n >= k {
        for i in 0..k {
            if counts[i] == 0 {
                let big = (0..k).max_by_key(|&t| counts[t]).unwrap();
                if counts[big] > 1 {
                    counts[big] -= 1;
                    counts[i] = 1;
                }
            }
        }
    }
    counts
}

/// per-symbol counts for the chosen distribution. `Dist::Exact` ignores n.
pub fn counts_for(dist: &Dist, k: usize, n: usize, rng: &mut Rng) -> Vec<usize> {
    if k == 0 {
        return vec![];
    }
    match dist {
        Dist::Exact(w) => {
            let mut c: Vec<usize> = w.iter().map(|&x| x as usize).collect();
            c.resize(k, 0);
            c
        }
        Dist::Equal => {
            let mut c = vec![n / k; k];
            for item in c.iter_mut().take(n % k) {
                *item += 1;
            }
            c
        }
        Dist::Uniform => {
            // multinomial-like: equal weights with a little seeded noise
            let w: Vec<f64> = (0..k).map(|_| 1.0 + 0.1 * rng.f64()).collect();
            counts_from_weights(&w, n)
        }
        Dist::Zipf => {
            let mut w: Vec<f64> = (0..k).map(|i| 1.0 / (i as f64 + 1.0)).collect();
            rng.shuffle(&mut w);
            counts_from_weights(&w, n)
        }
        Dist::Geometric(r) => {
            let mut w: Vec<f64> = (0..k).map(|i| r.powi(-(i.min(900) as i32))).collect();
            rng.shuffle(&mut w);
            counts_from_weights(&w, n)
        }
        Dist::Dominant => {
            let mut w: Vec<f64> = vec![0.05 / (k.max(2) - 1) as f64; k];
            let d = rng.usize_below(k);
            w[d] = 0.95;
            counts_from_weights(&w, n)
        }
        Dist::Random => {
            let w: Vec<f64> = (0..k).map(|_| rng.f64().powi(3) + 1e-6).collect();
            counts_from_weights(&w, n)
        }
    }
}

pub fn arrange(syms: &[u128], counts: &[usize], layout: &Layout, rng: &mut Rng) -> Vec<u128> {
    let n: usize = counts.iter().sum();
    let mut out: Vec<u128> = Vec::with_capacity(n);
    let expand_sorted = |order: &[usize], out: &mut Vec<u128>| {
        for &i in order {
            for _ in 0..counts[i] {
                out.push(syms[i]);
            }
        }
    };
    let ident: Vec<usize> = (0..syms.len()).collect();
    match layout {
        Layout::Iid => {
            expand_sorted(&ident, &mut out);
            rng.shuffle(&mut out);
        }
        Layout::Sorted => expand_sorted(&ident, &mut out),
        Layout::Blocks(b) => {
            let mut tmp = Vec::with_capacity(n);
            expand_sorted(&ident, &mut tmp);
            let b = (*b).max(1);
            let mut blocks: Vec<&[u128]> = tmp.chunks(b).collect();
            rng.shuffle(&mut blocks);
            for bl in blocks {
                out.extend_from_slice(bl);
            }
        }
        Layout::Strided(p) => {
            let p = (*p).max(1);
            let mut tmp = Vec::with_capacity(n);
            expand_sorted(&ident, &mut tmp);
            out.resize(n, 0);
            let mut k = 0usize;
            for r in 0..p.min(n.max(1)) {
                let mut i = r;
                while i < n {
                    out[i] = tmp[k];
                    k += 1;
                    i += p;
                }
            }
        }
        Layout::Periodic => {
            let mut left = counts.to_vec();
            let mut remaining = n;
            while remaining > 0 {
                for i in 0..syms.len() {
                    if left[i] > 0 {
                        out.push(syms[i]);
                        left[i] -= 1;
                        remaining -= 1;
                    }
                }
            }
        }
        Layout::RareFirst => {
            let mut order = ident.clone();
            order.sort_by_key(|&i| counts[i]);
            expand_sorted(&order, &mut out);
        }
        Layout::RareLast => {
            let mut order = ident.clone();
            order.sort_by_key(|&i| std::cmp::Reverse(counts[i]));
            expand_sorted(&order, &mut out);
        }
        Layout::RareBlockAfter { lead, top } => {
            if syms.is_empty() {
                return out;
            }
            let mut order = ident.clone();
            order.sort_by_key(|&i| std::cmp::Reverse(counts[i]));
            let frequent: Vec<usize> = order.iter().copied().take(*top).collect();
            let rare: Vec<usize> = order.iter().copied().skip(*top).collect();
            let mut left = counts.to_vec();
            let f0 = frequent[0];
            for _ in 0..(*lead).min(left[f0]) {
                out.push(syms[f0]);
                left[f0] -= 1;
            }
            for group in [&rare, &frequent] {
                loop {
                    let mut any = false;
                    for &i in group.iter() {
                        if left[i] > 0 {
                            out.push(syms[i]);
                            left[i] -= 1;
                            any = true;
                        }
                    }
                    if !any {
                        break;
                    }
                }
            }
        }
        Layout::FreqAfterRare => {
            if syms.is_empty() {
                return out;
            }
            let top = (0..syms.len()).max_by_key(|&i| counts[i]).unwrap();
            let rest: Vec<usize> = ident.iter().copied().filter(|&i| i != top).collect();
            expand_sorted(&rest, &mut out);
            rng.shuffle(&mut out);
            for _ in 0..counts[top] {
                out.push(syms[top]);
            }
        }
    }
    out
}

/// Generate the sequence (as u128 values, all <= type_max(bits)).
pub fn gen_seq(spec: &SeqSpec, bits: u32) -> Vec<u128> {
    let mut rng = Rng::new(spec.seed ^ 0xA5A5_0001);
    let syms = alpha_values(&spec.alpha, bits, &mut rng);
    if spec.n == 0 && !matches!(spec.dist, Dist::Exact(_)) {
        return vec![];
    }
    let counts = counts_for(&spec.dist, syms.len(), spec.n, &mut rng);
    arrange(&syms, &counts, &spec.layout, &mut rng)
}

/// Tie-free weights forcing the deepest possible prefix code of the given arity (2 or 4):
/// every new (group of) symbol(s) is heavier than everything merged so far.
/// Returns the weights (ascending). `levels` is the number of code fragments of the deepest code.
pub fn deep_code_weights(arity: usize, levels: usize) -> Vec<u64> {
    assert!(arity == 2 || arity == 4);
    let group = arity - 1;
    let mut w: Vec<u64> = vec![1; arity]; // deepest leaves
    if levels <= 1 {
        return w;
    }
    // group 1
    let mut acc_prev: u64 = arity as u64; // sum of everything before the current group
    let mut x: u64 = 1; // weight of the current group members
    for _ in 0..group {
        w.push(x);
    }
    for _ in 2..levels {
        let next = acc_prev + 1;
        acc_prev += group as u64 * x;
        x = next.max(x);
        for _ in 0..group {
            w.push(x);
        }
    }
    w
}

/// Frequencies whose binary Huffman tree has two long branches (two codewords per length, four of
/// the maximal length `depth`): unlike the single-chain profile, long codewords with set bits in
/// their most significant positions occur.
pub fn two_branch_weights(depth: usize) -> Vec<u64> {
    let (mut l, mut p, mut q) = (1u64, 1u64, 1u64);
    let mut f = vec![1u64, 1, 1, 1];
    for _ in 2..depth {
        let nl = l.max(p).max(q) + 1;
        let np = 2 * l;
        let nq = p + q;
        l = nl;
        p = np;
        q = nq;
        f.extend([l, l]);
    }
    f
}

/// The interesting lengths up to `max_n`: tiny ones and the neighbours of every structural period.
pub fn boundary_lengths(max_n: usize) -> Vec<usize> {
    let mut v = vec![0usize, 1, 2, 3, 5, 63, 64, 65];
    for b in [128usize, 256, 512, 1024, 2048, 4096, 8192, 16384, 32768, 65536] {
        v.extend_from_slice(&[b - 1, b, b + 1]);
    }
    for k in [2usize, 3, 5, 9, 17] {
        v.push(k * 2048 + 1);
        v.push(k * 4096 - 1);
    }
    v.retain(|&x| x <= max_n);
    v.sort_unstable();
    v.dedup();
    v
}

// ---------------------------------------------------------------------------------------------
// bit vectors
// ---------------------------------------------------------------------------------------------

#[derive(Clone, Debug)]
pub enum BitKind {
    /// ones with probability p/1000
    Density(u32),
    /// alternating runs of ones and zeros with the given mean length
    Runs(usize),
    /// a one every k-th position
    Every(usize),
    /// a zero every k-th position
    ZeroEvery(usize),
    Zeros,
    Ones,
    /// dense clusters of `cluster` ones separated by `gap` zeros
    Clustered { cluster: usize, gap: usize },
    /// the first `units` units of `unit` bits hold exactly `period*h + delta` bits equal to `target`
    /// (h as large as fits), the next unit starts with `next`: the count of ones/zeros reaches a
    /// select-hint period exactly on (or one off) a block / superblock boundary
    CountAligned { period: usize, unit: usize, units: usize, target: bool, delta: i32, next: bool },
}

#[derive(Clone, Debug)]
pub struct BitSpec {
    pub n: usize,
    pub kind: BitKind,
    pub seed: u64,
}

impl BitSpec {
    pub fn to_json(&self) -> J {
        J::obj()
            .set("n", self.n)
            .set("kind", format!("{:?}", self.kind))
            .set("seed", self.seed)
    }
    pub fn class(&self) -> String {
        let k = match &self.kind {
            BitKind::Density(p) => match p {
                0..=20 => "sparse",
                21..=300 => "lowdens",
                301..=700 => "half",
                701..=979 => "highdens",
                _ => "dense",
            }
            .to_string(),
            BitKind::Runs(_) => "runs".into(),
            BitKind::Every(_) => "every".into(),
            BitKind::ZeroEvery(_) => "zeroevery".into(),
            BitKind::Zeros => "zeros".into(),
            BitKind::Ones => "ones".into(),
            BitKind::Clustered { .. } => "clustered".into(),
            BitKind::CountAligned { period, target, .. } => format!("countaligned{}{}", period, *target as u8),
        };
        format!("n{}|{}", len_bucket(self.n), k)
    }
}

pub fn gen_bits(spec: &BitSpec) -> Vec<bool> {
    let mut rng = Rng::new(spec.seed ^ 0xB175_0002);
    let n = spec.n;
    match &spec.kind {
        BitKind::Density(p) => (0..n).map(|_| rng.below(1000) < *p as u64).collect(),
        BitKind::Runs(mean) => {
            let mut v = Vec::with_capacity(n);
            let mut bit = rng.bool();
            while v.len() < n {
                let len = 1 + rng.usize_below(2 * (*mean).max(1));
                for _ in 0..len.min(n - v.len()) {
                    v.push(bit);
                }
                bit = !bit;
            }
            v
        }
        BitKind::Every(k) => (0..n).map(|i| i % k == k - 1).collect(),
        BitKind::ZeroEvery(k) => (0..n).map(|i| i % k != k - 1).collect(),
        BitKind::Zeros => vec![false; n],
        BitKind::Ones => vec![true; n],
        BitKind::CountAligned { period, unit, units, target, delta, next } => {
            let prefix = unit * units;
            let h = ((prefix as i64 - 2) / *period as i64).max(1);
            let want = (h * *period as i64 + *delta as i64).clamp(0, prefix as i64) as usize;
            // `want` positions of the prefix hold `target`, chosen at random; the rest holds !target
            let mut v = vec![!*target; prefix];
            let mut idx: Vec<usize> = (0..prefix).collect();
            rng.shuffle(&mut idx);
            for &i in idx.iter().take(want) {
                v[i] = *target;
            }
            v.push(*next);
            while v.len() < n.max(prefix + 1) {
                v.push(rng.bool());
            }
            v
        }
        BitKind::Clustered { cluster, gap } => {
            let mut v = Vec::with_capacity(n);
            while v.len() < n {
                for _ in 0..(*cluster).min(n - v.len()) {
                    v.push(true);
                }
                let g = *gap / 2 + rng.usize_below(*gap + 1);
                for _ in 0..g.min(n - v.len()) {
                    v.push(false);
                }
            }
            v
        }
    }
}

// ---------------------------------------------------------------------------------------------
// quaternary sequences
// ---------------------------------------------------------------------------------------------

#[derive(Clone, Debug)]
pub enum QuadKind {
    Uniform,
    Constant(u8),
    Periodic,
    Runs(usize),
    /// symbol `sym` appears once every `every` positions, the rest is `fill`
    Rare { sym: u8, every: usize, fill: u8 },
    /// weights 8:4:2:1 over a seeded permutation of the symbols
    Skewed,
    /// only two of the four symbols
    TwoSyms(u8, u8),
    /// the first `units` superblocks of `unit` symbols hold exactly 8192*h + delta occurrences of `sym`,
    /// the next superblock starts with `sym` (next = true) or with another symbol
    CountAligned { unit: usize, units: usize, sym: u8, delta: i32, next: bool },
    /// like CountAligned with delta = 0, but the counted prefix ends `back` symbols before the superblock
    /// boundary and the symbol at its end is `sym`: the (8192*h + 1)-th occurrence sits exactly `back`
    /// positions before a superblock boundary (back = 1: on the last position of a superblock)
    SampleNearBoundary { unit: usize, units: usize, sym: u8, back: usize },
    /// `sym` does not occur before `pos`, occurs at `pos`, and with density 1/3 afterwards
    FirstOccurrenceAt { sym: u8, pos: usize },
}

#[derive(Clone, Debug)]
pub struct QuadSpec {
    pub n: usize,
    pub kind: QuadKind,
    pub seed: u64,
}

impl QuadSpec {
    pub fn to_json(&self) -> J {
        J::obj()
            .set("n", self.n)
            .set("kind", format!("{:?}", self.kind))
            .set("seed", self.seed)
    }
    pub fn class(&self) -> String {
        let k = match &self.kind {
            QuadKind::Uniform => "uniform",
            QuadKind::Constant(_) => "constant",
            QuadKind::Periodic => "periodic",
            QuadKind::Runs(_) => "runs",
            QuadKind::Rare { .. } => "rare",
            QuadKind::Skewed => "skewed",
            QuadKind::TwoSyms(..) => "twosyms",
            QuadKind::CountAligned { .. } => "countaligned",
            QuadKind::SampleNearBoundary { .. } => "samplenearboundary",
            QuadKind::FirstOccurrenceAt { .. } => "firstoccurrenceat",
        };
        format!("n{}|{}", len_bucket(self.n), k)
    }
}

pub fn gen_quads(spec: &QuadSpec) -> Vec<u8> {
    let mut rng = Rng::new(spec.seed ^ 0x0CAD_0003);
    let n = spec.n;
    match &spec.kind {
        QuadKind::Uniform => (0..n).map(|_| rng.below(4) as u8).collect(),
        QuadKind::Constant(s) => vec![*s & 3; n],
        QuadKind::Periodic => (0..n).map(|i| (i % 4) as u8).collect(),
        QuadKind::Runs(mean) => {
            let mut v = Vec::with_capacity(n);
            while v.len() < n {
                let s = rng.below(4) as u8;
                let len = 1 + rng.usize_below(2 * (*mean).max(1));
                for _ in 0..len.min(n - v.len()) {
                    v.push(s);
                }
            }
            v
        }
        QuadKind::Rare { sym, every, fill } => (0..n)
            .map(|i| if i % every == every - 1 { *sym & 3 } else { *fill & 3 })
            .collect(),
        QuadKind::Skewed => {
            let mut perm = [0u8, 1, 2, 3];
            rng.shuffle(&mut perm);
            (0..n)
                .map(|_| {
                    let r = rng.below(15);
                    let j = if r < 8 {
                        0
                    } else if r < 12 {
                        1
                    } else if r < 14 {
                        2
                    } else {
                        3
                    };
                    perm[j]
                })
                .collect()
        }
        QuadKind::TwoSyms(a, b) => (0..n).map(|_| if rng.bool() { *a & 3 } else { *b & 3 }).collect(),
        QuadKind::SampleNearBoundary { unit, units, sym, back } => {
            let prefix = unit * units - back;
            let h = ((prefix as i64 - 2) / 8192).max(0);
            let want = (h * 8192) as usize;
            let other = |rng: &mut Rng| -> u8 { (*sym + 1 + rng.below(3) as u8) & 3 };
            let mut v: Vec<u8> = (0..prefix).map(|_| other(&mut rng)).collect();
            let mut idx: Vec<usize> = (0..prefix).collect();
            rng.shuffle(&mut idx);
            for &i in idx.iter().take(want) {
                v[i] = *sym & 3;
            }
            v.push(*sym & 3); // the (8192h+1)-th occurrence, `back` positions before the boundary
            while v.len() < n.max(prefix + 1) {
                v.push(rng.below(4) as u8);
            }
            v
        }
        QuadKind::FirstOccurrenceAt { sym, pos } => {
            let other = |rng: &mut Rng| -> u8 { (*sym + 1 + rng.below(3) as u8) & 3 };
            let mut v: Vec<u8> = (0..*pos).map(|_| other(&mut rng)).collect();
            v.push(*sym & 3);
            while v.len() < n.max(pos + 1) {
                v.push(if rng.below(3) == 0 { *sym & 3 } else { other(&mut rng) });
            }
            v
        }
        QuadKind::CountAligned { unit, units, sym, delta, next } => {
            let prefix = unit * units;
            let h = ((prefix as i64 - 2) / 8192).max(1);
            let want = (h * 8192 + *delta as i64).clamp(0, prefix as i64) as usize;
            let other = |rng: &mut Rng| -> u8 { (*sym + 1 + rng.below(3) as u8) & 3 };
            let mut v: Vec<u8> = (0..prefix).map(|_| other(&mut rng)).collect();
            let mut idx: Vec<usize> = (0..prefix).collect();
            rng.shuffle(&mut idx);
            for &i in idx.iter().take(want) {
                v[i] = *sym & 3;
            }
            v.push(if *next { *sym & 3 } else { other(&mut rng) });
            while v.len() < n.max(prefix + 1) {
                v.push(rng.below(4) as u8);
            }
            v
        }
    }
}

// ---------------------------------------------------------------------------------------------
// DArray position lists: concatenations of groups of ones
// ---------------------------------------------------------------------------------------------

#[derive(Clone, Copy, Debug, PartialEq)]
pub enum Group {
    /// `count` ones, consecutive ones `step` apart (dense iff (count-1)*step < 65536)
    Stepped { count: usize, step: usize },
    /// `count` ones whose first and last are exactly `span` apart (evenly spread in between)
    Span { count: usize, span: usize },
    /// `count` ones at seeded random gaps with the given mean
    Random { count: usize, mean_gap: usize },
    /// `count` ones (count > 33): the last 32 of them occupy the 33 positions `tail_at ..= tail_at + 32` (relative to the
    /// first one) except position `tail_at + hole`, the others are spread evenly before `tail_at`. With count = 1024 the
    /// last sub-block of the block starts at offset `tail_at`: offsets next to the 16-bit limit when tail_at + 32 = 65535.
    LateTail { count: usize, tail_at: usize, hole: usize },
}

#[derive(Clone, Debug)]
pub struct GroupSpec {
    pub groups: Vec<Group>,
    /// zeros before the first one
    pub lead: usize,
    /// gap between the last one of a group and the first of the next
    pub gap: usize,
    /// zeros appended after the last one
    pub tail: usize,
    pub seed: u64,
}

impl GroupSpec {
    pub fn to_json(&self) -> J {
        J::obj()
            .set("groups", format!("{:?}", self.groups))
            .set("lead", self.lead)
            .set("gap", self.gap)
            .set("tail", self.tail)
            .set("seed", self.seed)
    }
    pub fn class(&self) -> String {
        let mut s = String::new();
        for g in &self.groups {
            s.push(match g {
                Group::Stepped { count, step } => {
                    if *count < 1024 {
                        'p'
                    } else if (count - 1) * step < 65536 {
                        'd'
                    } else {
                        's'
                    }
                }
                Group::Span { span, .. } => {
                    if *span < 65536 {
                        't'
                    } else {
                        'T'
                    }
                }
                Group::Random { .. } => 'r',
                Group::LateTail { tail_at, .. } => {
                    if tail_at + 32 < 65536 {
                        'l'
                    } else {
                        'L'
                    }
                }
            });
        }
        s
    }
}

/// strictly increasing positions of the ones
pub fn gen_group_positions(spec: &GroupSpec) -> Vec<usize> {
    let mut rng = Rng::new(spec.seed ^ 0xDA88_0004);
    let mut pos = Vec::new();
    let mut cur = spec.lead;
    for g in &spec.groups {
        match *g {
            Group::Stepped { count, step } => {
                for j in 0..count {
                    pos.push(cur + j * step);
                }
                if count > 0 {
                    cur += (count - 1) * step;
                }
            }
            Group::Span { count, span } => {
                // first at cur, last at cur+span, strictly increasing in between
                assert!(count >= 2 && span >= count - 1);
                for j in 0..count {
                    let off = (j as u128 * span as u128 / (count as u128 - 1)) as usize;
                    pos.push(cur + off);
                }
                cur += span;
            }
            Group::Random { count, mean_gap } => {
                for j in 0..count {
                    if j > 0 {
                        cur += 1 + rng.usize_below(2 * mean_gap.max(1));
                    }
                    pos.push(cur);
                }
            }
            Group::LateTail { count, tail_at, hole } => {
                assert!(count > 33 && tail_at >= count - 32 && (1..32).contains(&hole));
                let head = count - 32;
                for j in 0..head {
                    pos.push(cur + (j as u128 * (tail_at as u128 - 1) / head as u128) as usize);
                }
                for j in 0..=32usize {
                    if j != hole {
                        pos.push(cur + tail_at + j);
                    }
                }
                cur += tail_at + 32;
            }
        }
        cur += spec.gap.max(1);
    }
    // Span groups with small spans may collide on integer division; enforce strict increase
    for i in 1..pos.len() {
        if pos[i] <= pos[i - 1] {
            pos[i] = pos[i - 1] + 1;
        }
    }
    pos
}
