//! worker18: C18 — queries are pure and structures can be shared across threads.
//!
//! This is a separate binary on purpose: it is the only code that requires qwt's public types to
//! be `Send + Sync`. If a type loses an auto trait, *this* binary stops compiling (E0277 on the
//! bounds below — a compile-time observation, reported by the orchestrator as the violation) and
//! every other property's worker still builds.
//!
//! Monitors:
//!  (1) auto traits: `assert_send_sync::<T>()` for every public structure;
//!  (2) purity: serialize, run the query plan twice, answers identical, serialized form identical;
//!      plans interleaved over several live structures;
//!  (3) concurrency: T threads share `&v`, start on a barrier and hammer the same hot queries with
//!      seeded yield/spin jitter; every answer must equal the single-threaded answer; the
//!      serialized form must be unchanged afterwards. Runs natively (scale), under ThreadSanitizer
//!      and under Miri with many scheduler seeds (data-race detection + schedule randomisation).

use qwt_verif::adapters::*;
use qwt_verif::gen::*;
use qwt_verif::json::J;
use qwt_verif::model::{BitModel, QuadModel, SeqModel};
use qwt_verif::prng::Rng;
use qwt_verif::report::{Cfg, Exp, Rep, Scale, Tier};
use qwt_verif::{chk, Case};
use std::sync::atomic::{AtomicUsize, Ordering};
use std::sync::{Barrier, Mutex};

#[global_allocator]
static GLOBAL: qwt_verif::alloc::Counting = qwt_verif::alloc::Counting;

fn assert_send_sync<T: Send + Sync>() -> usize {
    std::mem::size_of::<T>()
}

macro_rules! probe_trees {
    ($($alias:ident),*) => {{
        let mut n = 0usize;
        $(
            assert_send_sync::<qwt::$alias<u8>>();
            assert_send_sync::<qwt::$alias<u16>>();
            assert_send_sync::<qwt::$alias<u32>>();
            assert_send_sync::<qwt::$alias<u64>>();
            assert_send_sync::<qwt::$alias<usize>>();
            assert_send_sync::<qwt::$alias<u128>>();
            n += 6;
        )*
        n
    }};
}

/// compile-time observation, surfaced at run time as a count
fn auto_trait_probe() -> usize {
    let mut n = probe_trees!(QWT256, QWT512, QWT256Pfs, QWT512Pfs, HQWT256, HQWT512, HQWT256Pfs, HQWT512Pfs, WT, HWT);
    assert_send_sync::<qwt::BitVector>();
    assert_send_sync::<qwt::BitVectorMut>();
    assert_send_sync::<qwt::QVector>();
    assert_send_sync::<qwt::QVectorBuilder>();
    assert_send_sync::<qwt::RSQVector256>();
    assert_send_sync::<qwt::RSQVector512>();
    assert_send_sync::<qwt::RSNarrow>();
    assert_send_sync::<qwt::RSWide>();
    assert_send_sync::<qwt::DArray<false>>();
    assert_send_sync::<qwt::DArray<true>>();
    // iterators over shared structures
    assert_send_sync::<qwt::bitvector::BitVectorIter<'static>>();
    assert_send_sync::<qwt::bitvector::BitVectorIntoIter>();
    assert_send_sync::<qwt::WTIterator<u8, qwt::QWT256<u8>, &'static qwt::QWT256<u8>>>();
    n += 13;
    n
}

/// A structure + a deterministic query plan over it; `eval(i)` answers the i-th query.
struct Plan<'a, S: Sync> {
    name: String,
    s: &'a S,
    nq: usize,
    eval: Box<dyn Fn(&S, usize) -> u128 + Sync + 'a>,
    ser: Box<dyn Fn(&S) -> Vec<u8> + Sync + 'a>,
    /// serialized form taken right after construction, before ANY query was made
    bytes0: Vec<u8>,
}

fn opt(v: Option<usize>) -> u128 {
    match v {
        None => u128::MAX,
        Some(x) => x as u128,
    }
}

/// purity + concurrency monitor over one plan
fn monitor_plan<S: Sync>(rep: &mut Rep, p: &Plan<S>, threads: &[usize], rounds: usize, seed: u64) {
    // ---- (2) purity, single-threaded
    let bytes0 = &p.bytes0;
    chk!(rep, "serialized_identical_to_fresh_value", &p.name, Exp::Is(true), &(p.ser)(p.s) == bytes0);
    let expected: Vec<u128> = (0..p.nq).map(|i| (p.eval)(p.s, i)).collect();
    let again: Vec<u128> = (0..p.nq).rev().map(|i| (p.eval)(p.s, i)).collect::<Vec<_>>().into_iter().rev().collect();
    chk!(rep, "repeat_batch_identical", &p.name, Exp::Is(true), again == expected);
    rep.tick_evals("purity_queries", p.nq as u64);
    chk!(rep, "serialized_identical_after_queries", &p.name, Exp::Is(true), &(p.ser)(p.s) == bytes0);

    // ---- (3) concurrency
    for &t in threads {
        for round in 0..rounds {
            let barrier = Barrier::new(t);
            let in_flight = AtomicUsize::new(0);
            let max_in_flight = AtomicUsize::new(0);
            let mismatches: Mutex<Vec<(usize, usize, u128, u128)>> = Mutex::new(Vec::new());
            let order: Mutex<Vec<usize>> = Mutex::new(Vec::new());
            let nq = p.nq;
            std::thread::scope(|sc| {
                for tid in 0..t {
                    let barrier = &barrier;
                    let in_flight = &in_flight;
                    let max_in_flight = &max_in_flight;
                    let mismatches = &mismatches;
                    let order = &order;
                    let expected = &expected;
                    let eval = &p.eval;
                    let s = p.s;
                    sc.spawn(move || {
                        let mut rng = Rng::new(seed ^ ((tid as u64) << 32) ^ round as u64);
                        barrier.wait();
                        let now = in_flight.fetch_add(1, Ordering::SeqCst) + 1;
                        max_in_flight.fetch_max(now, Ordering::SeqCst);
                        // all threads hammer the same hot queries (same index sequence), with jitter
                        let hot = 1 + nq / 8;
                        for k in 0..nq {
                            let i = if k % 2 == 0 { (k / 2) % hot } else { rng.usize_below(nq) };
                            let got = eval(s, i);
                            if got != expected[i] {
                                let mut m = mismatches.lock().unwrap();
                                if m.len() < 8 {
                                    m.push((tid, i, expected[i], got));
                                }
                            }
                            match rng.below(16) {
                                0 => std::thread::yield_now(),
                                1 => {
                                    for _ in 0..rng.below(50) {
                                        std::hint::spin_loop();
                                    }
                                }
                                _ => {}
                            }
                        }
                        in_flight.fetch_sub(1, Ordering::SeqCst);
                        order.lock().unwrap().push(tid);
                    });
                }
            });
            rep.tick_evals("concurrent_queries", (t * nq) as u64);
            let mm = mismatches.into_inner().unwrap();
            chk!(rep, "concurrent_answers_equal_single_thread", (&p.name, t, round), Exp::Is(Vec::<(usize, usize, u128, u128)>::new()), mm);
            rep.gate_max("max_in_flight_threads", max_in_flight.load(Ordering::SeqCst) as u64);
            rep.gate_set("completion_orders", format!("{:?}", order.into_inner().unwrap()));
        }
        chk!(rep, "serialized_identical_after_threads", (&p.name, t), Exp::Is(true), &(p.ser)(p.s) == bytes0);
    }
    rep.nontrivial();
}

fn tree_plan<'a, Tr: TreeApi + Sync>(t: &'a Tr, m: &SeqModel, nq: usize, seed: u64, bytes0: Vec<u8>) -> Plan<'a, Tr> {
    // the query list is fixed up front: (kind, symbol, index)
    let mut rng = Rng::new(seed);
    let n = m.len();
    let mut qs: Vec<(u8, Tr::Item, usize)> = Vec::with_capacity(nq);
    for _ in 0..nq {
        let c = if m.syms.is_empty() || rng.chance(1, 10) { rng.u128() % (m.max().unwrap_or(0) + 2) } else { *rng.pick(&m.syms) };
        let cs = <Tr::Item as Sym>::from_u128(c.min(<Tr::Item as Sym>::max_u128()));
        let mut kind = rng.below(8) as u8;
        let i = match kind % 4 {
            2 => rng.usize_below(m.count(c) + 2),
            _ => rng.usize_below(n + 2),
        };
        // kinds 4..8 are the unchecked twins of 0..4: only where the documented precondition holds
        // (index in range, symbol of the sequence, occurrence exists), otherwise the checked method is used
        if kind >= 4 {
            let valid_sym = c <= <Tr::Item as Sym>::max_u128() && m.count(c) > 0;
            let ok = match kind {
                4 => i < n,
                5 | 7 => valid_sym && i <= n,
                _ => valid_sym && i < m.count(c),
            };
            if !ok {
                kind -= 4;
            }
        }
        qs.push((kind, cs, i));
        // locality: runs of queries on the same symbol with consecutive indices (what a memo or
        // cursor inside the structure would key on)
        if rng.chance(1, 3) {
            let run = 1 + rng.usize_below(6);
            for d in 1..=run {
                if qs.len() < nq {
                    // (runs continue with the checked method: i + d may leave the valid range)
                    qs.push((kind % 4, cs, i + d));
                }
            }
        }
    }
    qs.truncate(nq);
    Plan {
        name: Tr::name(),
        s: t,
        nq,
        eval: Box::new(move |t: &Tr, k: usize| {
            let (kind, c, i) = qs[k];
            match kind {
                0 => t.get_(i).map(|x| x.to_u128()).unwrap_or(u128::MAX),
                1 => opt(t.rank_(c, i)),
                2 => opt(t.select_(c, i)),
                3 => match t.rank_prefetch_(c, i) {
                    Some(r) => opt(r),
                    None => opt(t.rank_(c, i)),
                },
                // SAFETY: the plan only contains these kinds where the precondition was established from the model
                4 => (unsafe { t.get_unchecked_(i) }).to_u128(),
                5 => (unsafe { t.rank_unchecked_(c, i) }) as u128,
                6 => (unsafe { t.select_unchecked_(c, i) }) as u128,
                _ => match unsafe { t.rank_prefetch_unchecked_(c, i) } {
                    Some(r) => r as u128,
                    None => (unsafe { t.rank_unchecked_(c, i) }) as u128,
                },
            }
        }),
        ser: Box::new(|t: &Tr| t.ser().unwrap_or_default()),
        bytes0,
    }
}

fn run_tree<Tr: TreeApi + Sync>(rep: &mut Rep, spec: &SeqSpec, nq: usize, threads: &[usize], rounds: usize) {
    let raw = gen_seq(spec, <Tr::Item as Sym>::BITS);
    let data: Vec<Tr::Item> = raw.iter().map(|&x| <Tr::Item as Sym>::from_u128(x)).collect();
    let m = SeqModel::new(raw);
    let t = Tr::b_from(data);
    let bytes0 = t.ser().unwrap_or_default();
    // the single-threaded answers are themselves checked against the model (small battery)
    let mut rng = Rng::new(spec.seed ^ 0xC18);
    let o = qwt_verif::battery::BatOpts::new(nq.min(400));
    qwt_verif::battery::tree_battery(rep, &t as &dyn DynTree<Tr::Item>, &m, &mut rng, &o);
    let p = tree_plan(&t, &m, nq, spec.seed ^ 0x18, bytes0);
    monitor_plan(rep, &p, threads, rounds, spec.seed);
}

/// (kind, index) query lists with runs of consecutive indices of the same kind
fn run_queries(rng: &mut Rng, nq: usize, kinds: u64, limit: usize) -> Vec<(u8, usize)> {
    let mut qs: Vec<(u8, usize)> = Vec::with_capacity(nq);
    while qs.len() < nq {
        let kind = rng.below(kinds) as u8;
        let i = rng.usize_below(limit);
        qs.push((kind, i));
        if rng.chance(1, 3) {
            for d in 1..=(1 + rng.usize_below(8)) {
                qs.push((kind, i + d));
            }
        }
    }
    qs.truncate(nq);
    qs
}

fn run_vectors(rep: &mut Rep, n: usize, seed: u64, nq: usize, threads: &[usize], rounds: usize) {
    let mut rng = Rng::new(seed);
    let quads: Vec<u8> = (0..n).map(|_| rng.below(4) as u8).collect();
    let bits: Vec<bool> = (0..n).map(|_| rng.below(3) == 0).collect();
    let qm = QuadModel::new(quads.clone());
    let bm = BitModel::new(bits.clone());
    let qseed = rng.u64();
    macro_rules! quad_plan {
        ($ty:ty, $name:expr) => {{
            let q = <$ty>::new(&quads);
            let bytes0 = q.ser().unwrap_or_default();
            let mut r = Rng::new(qseed);
            let qs: Vec<(u8, u8, usize)> = run_queries(&mut r, nq, 3, n + 2).into_iter().map(|(k, i)| (k, (i % 5) as u8, i)).collect();
            // single-threaded answers against the model
            for &(kind, s, i) in qs.iter().take(200) {
                if s < 4 {
                    match kind {
                        0 => {
                            chk!(rep, "rank", ($name, s, i), Exp::Is(if i <= n { Some(qm.rank(s, i)) } else { None }), q.rank_(s, i));
                        }
                        1 => {
                            chk!(rep, "select", ($name, s, i), Exp::Is(qm.select(s, i)), q.select_(s, i));
                        }
                        _ => {}
                    }
                }
            }
            let p = Plan {
                name: $name.to_string(),
                s: &q,
                nq,
                eval: Box::new(move |q: &$ty, k: usize| {
                    let (kind, s, i) = qs[k];
                    match kind {
                        0 => opt(q.rank_(s, i)),
                        1 => opt(q.select_(s, i)),
                        _ => q.get_(i).map(|x| x as u128).unwrap_or(u128::MAX),
                    }
                }),
                ser: Box::new(|q: &$ty| q.ser().unwrap_or_default()),
                bytes0,
            };
            monitor_plan(rep, &p, threads, rounds, seed);
        }};
    }
    quad_plan!(qwt::RSQVector256, "RSQVector256");
    quad_plan!(qwt::RSQVector512, "RSQVector512");
    macro_rules! bin_plan {
        ($ty:ty, $name:expr) => {{
            let b = <$ty>::new(bits.iter().copied().collect());
            let bytes0 = b.ser().unwrap_or_default();
            let mut r = Rng::new(qseed ^ 1);
            let qs: Vec<(u8, usize)> = run_queries(&mut r, nq, 5, n + 2);
            for &(kind, i) in qs.iter().take(200) {
                match kind {
                    0 if n > 0 => {
                        chk!(rep, "rank1", ($name, i), Exp::Is(if i <= n { Some(bm.rank1(i)) } else { None }), b.rank1_(i));
                    }
                    2 => {
                        chk!(rep, "select1", ($name, i), Exp::Is(bm.ones.get(i).copied()), b.select1_(i));
                    }
                    _ => {}
                }
            }
            let p = Plan {
                name: $name.to_string(),
                s: &b,
                nq,
                eval: Box::new(move |b: &$ty, k: usize| {
                    let (kind, i) = qs[k];
                    match kind {
                        0 => opt(b.rank1_(i)),
                        1 => opt(b.rank0_(i)),
                        2 => opt(b.select1_(i)),
                        3 => opt(b.select0_(i)),
                        _ => b.get_(i).map(|x| x as u128).unwrap_or(u128::MAX),
                    }
                }),
                ser: Box::new(|b: &$ty| b.ser().unwrap_or_default()),
                bytes0,
            };
            monitor_plan(rep, &p, threads, rounds, seed);
        }};
    }
    bin_plan!(qwt::RSNarrow, "RSNarrow");
    bin_plan!(qwt::RSWide, "RSWide");
    {
        use qwt::{AccessBin, SelectBin};
        let d: qwt::DArray<true> = bits.iter().copied().collect();
        let bytes0 = bincode::serialize(&d).unwrap_or_default();
        let mut r = Rng::new(qseed ^ 2);
        let qs: Vec<(u8, usize)> = run_queries(&mut r, nq, 3, n + 2);
        let p = Plan {
            name: "DArray<true>".to_string(),
            s: &d,
            nq,
            eval: Box::new(move |d: &qwt::DArray<true>, k: usize| {
                let (kind, i) = qs[k];
                match kind {
                    0 => opt(d.select1(i)),
                    1 => opt(d.select0(i)),
                    _ => d.get(i).map(|x| x as u128).unwrap_or(u128::MAX),
                }
            }),
            ser: Box::new(|d: &qwt::DArray<true>| bincode::serialize(d).unwrap_or_default()),
            bytes0,
        };
        monitor_plan(rep, &p, threads, rounds, seed);
    }
    {
        use qwt::AccessBin;
        let bv: qwt::BitVector = bits.iter().copied().collect();
        let bytes0 = bincode::serialize(&bv).unwrap_or_default();
        let mut r = Rng::new(qseed ^ 3);
        let qs: Vec<(u8, usize, usize)> = (0..nq).map(|_| (r.below(3) as u8, r.usize_below(n + 2), 1 + r.usize_below(64))).collect();
        let p = Plan {
            name: "BitVector".to_string(),
            s: &bv,
            nq,
            eval: Box::new(move |b: &qwt::BitVector, k: usize| {
                let (kind, i, len) = qs[k];
                match kind {
                    0 => b.get(i).map(|x| x as u128).unwrap_or(u128::MAX),
                    1 => b.get_bits(i, len).map(|x| x as u128).unwrap_or(u128::MAX),
                    _ => b.ones().take(3).map(|x| x as u128).sum::<u128>() + b.count_ones() as u128,
                }
            }),
            ser: Box::new(|b: &qwt::BitVector| bincode::serialize(b).unwrap_or_default()),
            bytes0,
        };
        monitor_plan(rep, &p, threads, rounds, seed);
    }
}

/// long structures with one sparse symbol: selects on it cross many superblocks between two select
/// samples (where a search cursor / hint cache would live)
fn run_sparse_select(rep: &mut Rep, n: usize, seed: u64, nq: usize, threads: &[usize], rounds: usize) {
    let mut rng = Rng::new(seed);
    // symbol 3 with density 1/64, clustered unevenly; the rest uniform over 0..3
    let quads: Vec<u8> = (0..n).map(|i| if rng.below(64) == 0 || (i / 4096) % 7 == 3 && rng.below(6) == 0 { 3 } else { rng.below(3) as u8 }).collect();
    let qm = QuadModel::new(quads.clone());
    let c3 = qm.occs(3);
    let qseed = rng.u64();
    macro_rules! sparse_plan {
        ($ty:ty, $name:expr) => {{
            let q = <$ty>::new(&quads);
            let bytes0 = q.ser().unwrap_or_default();
            let mut r = Rng::new(qseed);
            // mostly selects of the sparse symbol, in short runs of consecutive indices
            let qs: Vec<(u8, u8, usize)> = run_queries(&mut r, nq, 8, c3 + 2).into_iter().map(|(k, i)| if k < 6 { (1u8, 3u8, i) } else { (k % 3, (i % 4) as u8, i % (n + 2)) }).collect();
            for &(kind, s, i) in qs.iter().take(300) {
                if kind == 1 {
                    chk!(rep, "select", ($name, s, i), Exp::Is(qm.select(s, i)), q.select_(s, i));
                }
            }
            let p = Plan {
                name: $name.to_string(),
                s: &q,
                nq,
                eval: Box::new(move |q: &$ty, k: usize| {
                    let (kind, s, i) = qs[k];
                    match kind {
                        0 => opt(q.rank_(s, i)),
                        1 => opt(q.select_(s, i)),
                        _ => q.get_(i).map(|x| x as u128).unwrap_or(u128::MAX),
                    }
                }),
                ser: Box::new(|q: &$ty| q.ser().unwrap_or_default()),
                bytes0,
            };
            monitor_plan(rep, &p, threads, rounds, seed);
        }};
    }
    sparse_plan!(qwt::RSQVector256, "RSQVector256[sparse symbol]");
    sparse_plan!(qwt::RSQVector512, "RSQVector512[sparse symbol]");
    // the same shape inside a wavelet tree: a 2-level tree whose level-0 digit 3 is sparse
    {
        let data: Vec<u8> = quads.iter().map(|&d| d * 4 + (rng.below(4) as u8)).collect();
        let m = SeqModel::new(data.iter().map(|&x| x as u128).collect());
        let t = qwt::QWT256::<u8>::from(data);
        let bytes0 = t.ser().unwrap_or_default();
        let mut r = Rng::new(qseed ^ 9);
        let qs: Vec<(u8, usize)> = run_queries(&mut r, nq, 4, c3 / 4 + 2);
        let syms: Vec<u8> = vec![12, 13, 14, 15, 0, 5];
        for &(kind, i) in qs.iter().take(200) {
            let c = syms[kind as usize % syms.len()];
            chk!(rep, "select", ("QWT256<u8>[sparse digit]", c, i), Exp::Is(m.select(c as u128, i)), t.select_(c, i));
        }
        let p = Plan {
            name: "QWT256<u8>[sparse digit]".to_string(),
            s: &t,
            nq,
            eval: Box::new(move |t: &qwt::QWT256<u8>, k: usize| {
                let (kind, i) = qs[k];
                let c = syms[kind as usize % syms.len()];
                opt(t.select_(c, i))
            }),
            ser: Box::new(|t: &qwt::QWT256<u8>| t.ser().unwrap_or_default()),
            bytes0,
        };
        monitor_plan(rep, &p, threads, rounds, seed);
    }
    rep.gate_max("max_sparse_symbol_occurrences", c3 as u64);
}

/// the operations `run_sparse_bits` needs, on the three bit structures with select support
trait SparseBits: Sync + serde::Serialize {
    fn sb_new(bv: qwt::BitVector) -> Self;
    fn sb_get(&self, i: usize) -> Option<bool>;
    fn sb_select1(&self, k: usize) -> Option<usize>;
    fn sb_select0(&self, k: usize) -> Option<usize>;
    /// # Safety: k < number of ones / zeros
    unsafe fn sb_select1_unchecked(&self, k: usize) -> usize;
    unsafe fn sb_select0_unchecked(&self, k: usize) -> usize;
    fn sb_rank1(&self, i: usize) -> Option<usize>;
    fn sb_rank0(&self, i: usize) -> Option<usize>;
    /// # Safety: i < len
    unsafe fn sb_rank1_unchecked(&self, i: usize) -> usize;
}

macro_rules! impl_sparse_bits_rs {
    ($ty:ty) => {
        impl SparseBits for $ty {
            fn sb_new(bv: qwt::BitVector) -> Self { <$ty>::new(bv) }
            fn sb_get(&self, i: usize) -> Option<bool> { qwt::AccessBin::get(self, i) }
            fn sb_select1(&self, k: usize) -> Option<usize> { qwt::SelectBin::select1(self, k) }
            fn sb_select0(&self, k: usize) -> Option<usize> { qwt::SelectBin::select0(self, k) }
            unsafe fn sb_select1_unchecked(&self, k: usize) -> usize { qwt::SelectBin::select1_unchecked(self, k) }
            unsafe fn sb_select0_unchecked(&self, k: usize) -> usize { qwt::SelectBin::select0_unchecked(self, k) }
            fn sb_rank1(&self, i: usize) -> Option<usize> { qwt::RankBin::rank1(self, i) }
            fn sb_rank0(&self, i: usize) -> Option<usize> { qwt::RankBin::rank0(self, i) }
            unsafe fn sb_rank1_unchecked(&self, i: usize) -> usize { qwt::RankBin::rank1_unchecked(self, i) }
        }
    };
}
impl_sparse_bits_rs!(qwt::RSWide);
impl_sparse_bits_rs!(qwt::RSNarrow);

impl SparseBits for qwt::DArray<true> {
    fn sb_new(bv: qwt::BitVector) -> Self { qwt::DArray::<true>::new(bv) }
    fn sb_get(&self, i: usize) -> Option<bool> { qwt::AccessBin::get(self, i) }
    fn sb_select1(&self, k: usize) -> Option<usize> { qwt::SelectBin::select1(self, k) }
    fn sb_select0(&self, k: usize) -> Option<usize> { qwt::SelectBin::select0(self, k) }
    unsafe fn sb_select1_unchecked(&self, k: usize) -> usize { qwt::SelectBin::select1_unchecked(self, k) }
    unsafe fn sb_select0_unchecked(&self, k: usize) -> usize { qwt::SelectBin::select0_unchecked(self, k) }
    // DArray has no rank: the rank slots of the plan read a bit instead
    fn sb_rank1(&self, i: usize) -> Option<usize> { qwt::AccessBin::get(self, i).map(|b| b as usize) }
    fn sb_rank0(&self, i: usize) -> Option<usize> { qwt::AccessBin::get(self, i).map(|b| !b as usize) }
    unsafe fn sb_rank1_unchecked(&self, i: usize) -> usize { qwt::AccessBin::get_unchecked(self, i) as usize }
}

/// long and very sparse bit vectors (two select samples / hints millions of bits apart: where a search cursor or a
/// last-answer cache would live), shared by threads that select different occurrences; checked and unchecked variants
fn run_sparse_bits(rep: &mut Rep, n: usize, seed: u64, nq: usize, threads: &[usize], rounds: usize) {
    let mut rng = Rng::new(seed);
    let n_ones = 3000usize;
    let mut ones: Vec<usize> = (0..n_ones).map(|_| rng.usize_below(n)).collect();
    ones.sort_unstable();
    ones.dedup();
    let qseed = rng.u64();
    for complement in [false, true] {
        // occurrences of the sparse value / of the dense value
        let sparse_at = |k: usize| ones.get(k).copied();
        let bv: qwt::BitVector = {
            let mut b = qwt::BitVectorMut::new();
            b.extend_with_zeros(n);
            for &p in &ones {
                b.set(p, true);
            }
            if complement {
                let mut c = qwt::BitVectorMut::new();
                let mut it = ones.iter().copied().peekable();
                for i in 0..n {
                    if it.peek() == Some(&i) {
                        it.next();
                        c.push(false);
                    } else {
                        c.push(true);
                    }
                }
                c.into()
            } else {
                b.into()
            }
        };
        macro_rules! plan {
            ($ty:ty, $name:expr, $s0:expr) => {{
                let b = <$ty as SparseBits>::sb_new(bv.clone());
                let bytes0 = bincode::serialize(&b).unwrap_or_default();
                let mut r = Rng::new(qseed);
                // (kind, k): selects of the sparse value (checked / unchecked), a few ranks and selects of the dense value
                let qs: Vec<(u8, usize)> = run_queries(&mut r, nq, 8, ones.len() + 2).into_iter().map(|(k, i)| if k == 1 && i >= ones.len() { (0, i) } else { (k, i) }).collect();
                for &(kind, k) in qs.iter().take(300) {
                    if kind <= 1 {
                        if complement {
                            chk!(rep, "select0", ($name, k), Exp::Is(sparse_at(k)), if $s0 { b.sb_select0(k) } else { sparse_at(k) });
                        } else {
                            chk!(rep, "select1", ($name, k), Exp::Is(sparse_at(k)), b.sb_select1(k));
                        }
                    }
                }
                let p = Plan {
                    name: format!("{}[sparse, {}]", $name, if complement { "zeros" } else { "ones" }),
                    s: &b,
                    nq,
                    eval: Box::new(move |b: &$ty, q: usize| {
                        let (kind, k) = qs[q];
                        let pos = (k * 7919) % (n + 1);
                        match (kind, complement) {
                            (0, false) | (2, false) => opt(b.sb_select1(k)),
                            // SAFETY: kind 1 only with k < number of ones (see the plan above)
                            (1, false) => (unsafe { b.sb_select1_unchecked(k) }) as u128,
                            (0, true) | (2, true) if $s0 => opt(b.sb_select0(k)),
                            (1, true) if $s0 => (unsafe { b.sb_select0_unchecked(k) }) as u128,
                            (3, _) => opt(b.sb_rank1(pos)),
                            (4, _) => opt(b.sb_rank0(pos)),
                            (5, false) if $s0 => opt(b.sb_select0(pos / 2)),
                            (5, true) => opt(b.sb_select1(pos / 2)),
                            (6, _) => (unsafe { b.sb_rank1_unchecked(pos.min(n - 1)) }) as u128,
                            _ => b.sb_get(pos).map(|x| x as u128).unwrap_or(u128::MAX),
                        }
                    }),
                    ser: Box::new(|b: &$ty| bincode::serialize(b).unwrap_or_default()),
                    bytes0,
                };
                monitor_plan(rep, &p, threads, rounds, seed);
            }};
        }
        plan!(qwt::RSWide, "RSWide", true);
        plan!(qwt::RSNarrow, "RSNarrow", true);
        plan!(qwt::DArray<true>, "DArray<true>", true);
    }
    rep.gate_max("max_sparse_bits_len", n as u64);
}

/// batches interleaved over several live structures (catches keyed global caches)
fn run_interleaved(rep: &mut Rep, seed: u64, n: usize, nq: usize) {
    let mut rng = Rng::new(seed);
    let specs: Vec<SeqSpec> = (0..4)
        .map(|i| SeqSpec { n: n + i * 7, alpha: Alpha::Dense(5 + 9 * i), dist: Dist::Zipf, layout: Layout::Iid, seed: rng.u64() })
        .collect();
    let data: Vec<Vec<u128>> = specs.iter().map(|s| gen_seq(s, 16)).collect();
    let models: Vec<SeqModel> = data.iter().map(|d| SeqModel::new(d.clone())).collect();
    let t0 = qwt::QWT256Pfs::<u16>::from(data[0].iter().map(|&x| x as u16).collect::<Vec<_>>());
    let t1 = qwt::HQWT512::<u16>::from(data[1].iter().map(|&x| x as u16).collect::<Vec<_>>());
    let t2 = qwt::WT::<u16>::from(data[2].iter().map(|&x| x as u16).collect::<Vec<_>>());
    let t3 = qwt::HWT::<u16>::from(data[3].iter().map(|&x| x as u16).collect::<Vec<_>>());
    let b0 = [t0.ser().unwrap(), t1.ser().unwrap(), t2.ser().unwrap(), t3.ser().unwrap()];
    for _ in 0..nq {
        let which = rng.usize_below(4);
        let m = &models[which];
        let c = *rng.pick(&m.syms);
        let i = rng.usize_below(m.len() + 1);
        let exp = Some(m.rank(c, i));
        let cs = c as u16;
        match which {
            0 => chk!(rep, "interleaved rank", (which, c, i), Exp::Is(exp), t0.rank_(cs, i)),
            1 => chk!(rep, "interleaved rank", (which, c, i), Exp::Is(exp), t1.rank_(cs, i)),
            2 => chk!(rep, "interleaved rank", (which, c, i), Exp::Is(exp), t2.rank_(cs, i)),
            _ => chk!(rep, "interleaved rank", (which, c, i), Exp::Is(exp), t3.rank_(cs, i)),
        };
    }
    chk!(rep, "serialized_identical_after_interleaving", n, Exp::Is(true), b0 == [t0.ser().unwrap(), t1.ser().unwrap(), t2.ser().unwrap(), t3.ser().unwrap()]);
    rep.nontrivial();
}

macro_rules! tree_case {
    ($out:expr, $alias:ident, $t:ty, $spec:expr, $nq:expr, $threads:expr, $rounds:expr) => {{
        let spec: SeqSpec = $spec;
        let threads: Vec<usize> = $threads.clone();
        let nq = $nq;
        let rounds = $rounds;
        let ty = format!("{}<{}>", stringify!($alias), stringify!($t));
        let class = format!("{}|{}", ty, spec.class());
        let desc = J::obj().set("spec", spec.to_json()).set("queries", nq).set("threads", format!("{:?}", threads)).set("rounds", rounds);
        let w = (spec.n as u64 + nq as u64 * 20) * rounds as u64;
        $out.push(Case::new(ty, class, desc, w, move |rep: &mut Rep| run_tree::<qwt::$alias<$t>>(rep, &spec, nq, &threads, rounds)));
    }};
}

fn cases(cfg: &Cfg) -> Vec<Case> {
    if cfg.prop != "C18" {
        if cfg.prop == "NOOP" {
            return Vec::new();
        }
        eprintln!("worker18 only serves C18");
        std::process::exit(64);
    }
    let mut rng = Rng::derive(cfg.seed, "c18", 0);
    let mut out = Vec::new();
    let (n, nq, threads, rounds): (usize, usize, Vec<usize>, usize) = match (cfg.scale, cfg.tier) {
        (Scale::Tiny, Tier::Quick) => (300, 24, vec![3], 1),
        (Scale::Tiny, Tier::Thorough) => (600, 40, vec![2, 4], 1),
        (Scale::Mid, Tier::Quick) => (6000, 600, vec![2, 8], 3),
        (Scale::Mid, Tier::Thorough) => (20_000, 2000, vec![2, 4, 8, 16], 10),
        (Scale::Full, Tier::Quick) => (30_000, 4000, vec![2, 5, 16], 12),
        (Scale::Full, Tier::Thorough) => (200_000, 20_000, vec![2, 3, 8, 16], 60),
    };
    let probe = auto_trait_probe();
    out.push(Case::new("auto traits", "send_sync_probe", J::obj().set("types_asserted_send_sync", probe), 1, move |rep: &mut Rep| {
        // compile-time observation: this binary exists, so every bound above holds
        chk!(rep, "Send+Sync bounds compiled", probe, Exp::Is(true), probe >= 73);
        rep.gate_add("types_asserted_send_sync", probe as u64);
        rep.nontrivial();
    }));
    let mk = |rng: &mut Rng, alpha: Alpha, dist: Dist| SeqSpec { n, alpha, dist, layout: Layout::Iid, seed: rng.u64() };
    let tiny = cfg.scale == Scale::Tiny;
    tree_case!(out, QWT256Pfs, u8, mk(&mut rng, Alpha::Dense(60), Dist::Zipf), nq, threads, rounds);
    tree_case!(out, HQWT512Pfs, u16, mk(&mut rng, Alpha::Dense(40), Dist::Geometric(2.0)), nq, threads, rounds);
    tree_case!(out, WT, u32, mk(&mut rng, Alpha::Holes { k: 30, max: 70_000 }, Dist::Zipf), nq, threads, rounds);
    tree_case!(out, HWT, u8, mk(&mut rng, Alpha::Dense(20), Dist::Zipf), nq, threads, rounds);
    if !tiny {
        tree_case!(out, QWT256, u64, mk(&mut rng, Alpha::Holes { k: 50, max: 1 << 40 }, Dist::Uniform), nq, threads, rounds);
        tree_case!(out, QWT512, u128, mk(&mut rng, Alpha::Holes { k: 20, max: 1 << 70 }, Dist::Zipf), nq, threads, rounds);
        tree_case!(out, QWT512Pfs, u32, mk(&mut rng, Alpha::Dense(300), Dist::Zipf), nq, threads, rounds);
        tree_case!(out, HQWT256, u8, mk(&mut rng, Alpha::Dense(7), Dist::Dominant), nq, threads, rounds);
        tree_case!(out, HQWT512, u32, mk(&mut rng, Alpha::Dense(100), Dist::Uniform), nq, threads, rounds);
        tree_case!(out, HQWT256Pfs, usize, mk(&mut rng, Alpha::Dense(22), Dist::Geometric(2.0)), nq, threads, rounds);
        tree_case!(out, WT, u128, mk(&mut rng, Alpha::Holes { k: 9, max: 1 << 90 }, Dist::Zipf), nq, threads, rounds);
        tree_case!(out, HWT, u64, mk(&mut rng, Alpha::Dense(64), Dist::Equal), nq, threads, rounds);
    }
    {
        let seed = rng.u64();
        let threads = threads.clone();
        let desc = J::obj().set("n", n).set("seed", seed).set("queries", nq).set("threads", format!("{:?}", threads)).set("rounds", rounds);
        out.push(Case::new("RSQVector256/512, RSNarrow, RSWide, DArray<true>, BitVector", "vectors", desc, (n as u64 + nq as u64 * 20) * rounds as u64 * 7, move |rep: &mut Rep| {
            run_vectors(rep, n, seed, nq, &threads, rounds)
        }));
    }
    if !tiny {
        let seed = rng.u64();
        let threads = threads.clone();
        let big_n = if cfg.scale == Scale::Full { 600_000 } else { 400_000 };
        let desc = J::obj().set("n", big_n).set("seed", seed).set("queries", nq).set("threads", format!("{:?}", threads)).set("rounds", rounds);
        out.push(Case::new("RSQVector256/512, QWT256 with one sparse symbol", "sparse_select", desc, (big_n as u64 + nq as u64 * 40) * rounds as u64 * 3, move |rep: &mut Rep| {
            run_sparse_select(rep, big_n, seed, nq, &threads, rounds)
        }));
    }
    if !tiny {
        let seed = rng.u64();
        let threads = threads.clone();
        let big_n = (9usize << 20) + 12_345;
        let desc = J::obj().set("n", big_n).set("ones", 3000).set("seed", seed).set("queries", nq).set("threads", format!("{:?}", threads)).set("rounds", rounds);
        out.push(Case::new("RSWide, RSNarrow, DArray<true> over 9.4 Mibit with 3000 ones (and the complement)", "sparse_bits", desc, (big_n as u64 / 8 + nq as u64 * 40) * rounds as u64 * 6, move |rep: &mut Rep| {
            run_sparse_bits(rep, big_n, seed, nq, &threads, rounds)
        }));
    }
    {
        let seed = rng.u64();
        out.push(Case::new("interleaved batches over 4 live trees", "interleaved", J::obj().set("seed", seed).set("n", n), nq as u64 * 4, move |rep: &mut Rep| {
            run_interleaved(rep, seed, n.min(5000), nq * 2)
        }));
    }
    out
}

fn main() {
    qwt_verif::cli::run(cases);
}
