//! Outcome capture: every call into qwt is executed under `guard`, which turns a panic into a
//! value carrying the panic message and source location (captured by a process-wide hook).
//! Aborts (std unsafe-precondition checks, segfaults) cannot be caught here; they are attributed
//! by the orchestrator through the write-ahead journal (the `case` / `op` lines).

use std::cell::RefCell;
use std::panic::{catch_unwind, AssertUnwindSafe};

#[derive(Clone, Debug, PartialEq)]
pub struct PanicInfo {
    pub msg: String,
    pub loc: String,
}

impl PanicInfo {
    /// coarse class, used only for reporting / signatures (never for deciding whether a panic is permitted)
    pub fn class(&self) -> &'static str {
        let m = &self.msg;
        if m.contains("overflow") {
            "arith_overflow"
        } else if m.contains("unsafe precondition") {
            "unsafe_precondition"
        } else if m.contains("index out of bounds") || m.contains("out of range") {
            "index_oob"
        } else if m.contains("`Option::unwrap()` on a `None`") || m.contains("unwrap") {
            "unwrap_none"
        } else if m.contains("assertion") {
            "assertion"
        } else if m.contains("divide by zero") {
            "div_zero"
        } else {
            "panic"
        }
    }
}

thread_local! {
    static LAST: RefCell<Option<PanicInfo>> = const { RefCell::new(None) };
    static DEPTH: std::cell::Cell<u32> = const { std::cell::Cell::new(0) };
}

pub fn install_hook() {
    std::panic::set_hook(Box::new(|info| {
        let msg = if let Some(s) = info.payload().downcast_ref::<&str>() {
            (*s).to_string()
        } else if let Some(s) = info.payload().downcast_ref::<String>() {
            s.clone()
        } else {
            "<non-string panic payload>".to_string()
        };
        let loc = info
            .location()
            .map(|l| format!("{}:{}", l.file(), l.line()))
            .unwrap_or_else(|| "<unknown>".into());
        if DEPTH.with(|d| d.get()) == 0 {
            // a panic outside any guard is a harness bug (or a panic on another thread): show it
            eprintln!("HARNESS PANIC (outside guard): {} at {}", msg, loc);
        }
        LAST.with(|l| *l.borrow_mut() = Some(PanicInfo { msg, loc }));
    }));
}

#[derive(Clone, Debug, PartialEq)]
pub enum Out<T> {
    Val(T),
    Panic(PanicInfo),
}

impl<T> Out<T> {
    pub fn val(self) -> Option<T> {
        match self {
            Out::Val(v) => Some(v),
            Out::Panic(_) => None,
        }
    }
    pub fn is_panic(&self) -> bool {
        matches!(self, Out::Panic(_))
    }
    pub fn as_val(&self) -> Option<&T> {
        match self {
            Out::Val(v) => Some(v),
            Out::Panic(_) => None,
        }
    }
}

#[inline]
pub fn guard<T>(f: impl FnOnce() -> T) -> Out<T> {
    DEPTH.with(|d| d.set(d.get() + 1));
    let r = catch_unwind(AssertUnwindSafe(f));
    DEPTH.with(|d| d.set(d.get() - 1));
    match r {
        Ok(v) => Out::Val(v),
        Err(_) => {
            let p = LAST.with(|l| l.borrow_mut().take()).unwrap_or(PanicInfo {
                msg: "<panic without hook info>".into(),
                loc: "<unknown>".into(),
            });
            Out::Panic(p)
        }
    }
}
