//! worker: monitors of every property except C18 (see src/bin18.rs).

#[global_allocator]
static GLOBAL: qwt_verif::alloc::Counting = qwt_verif::alloc::Counting;

fn main() {
    qwt_verif::cli::run(qwt_verif::props::cases);
}
