//! Naive reference models. They share no code with qwt.

use std::collections::HashMap;

pub struct SeqModel {
    pub seq: Vec<u128>,
    pub occ: HashMap<u128, Vec<usize>>,
    /// sorted distinct symbols
    pub syms: Vec<u128>,
}

impl SeqModel {
    pub fn new(seq: Vec<u128>) -> Self {
        let mut occ: HashMap<u128, Vec<usize>> = HashMap::new();
        for (i, &s) in seq.iter().enumerate() {
            occ.entry(s).or_default().push(i);
        }
        let mut syms: Vec<u128> = occ.keys().copied().collect();
        syms.sort_unstable();
        SeqModel { seq, occ, syms }
    }
    pub fn len(&self) -> usize {
        self.seq.len()
    }
    pub fn max(&self) -> Option<u128> {
        self.syms.last().copied()
    }
    pub fn count(&self, c: u128) -> usize {
        self.occ.get(&c).map(|v| v.len()).unwrap_or(0)
    }
    /// occurrences of c in seq[0..i), i <= n
    pub fn rank(&self, c: u128, i: usize) -> usize {
        match self.occ.get(&c) {
            None => 0,
            Some(v) => v.partition_point(|&p| p < i),
        }
    }
    pub fn select(&self, c: u128, k: usize) -> Option<usize> {
        self.occ.get(&c).and_then(|v| v.get(k).copied())
    }
    /// zero-order empirical entropy in bits per symbol
    pub fn h0(&self) -> f64 {
        let n = self.seq.len() as f64;
        if n == 0.0 {
            return 0.0;
        }
        let mut h = 0.0;
        for v in self.occ.values() {
            let p = v.len() as f64 / n;
            h -= p * p.log2();
        }
        h
    }
}

pub struct BitModel {
    pub bits: Vec<bool>,
    pub ones: Vec<usize>,
    pub zeros: Vec<usize>,
}

impl BitModel {
    pub fn new(bits: Vec<bool>) -> Self {
        let mut ones = Vec::new();
        let mut zeros = Vec::new();
        for (i, &b) in bits.iter().enumerate() {
            if b {
                ones.push(i)
            } else {
                zeros.push(i)
            }
        }
        BitModel { bits, ones, zeros }
    }
    pub fn from_positions(pos: &[usize]) -> Self {
        let n = pos.last().map(|&p| p + 1).unwrap_or(0);
        let mut bits = vec![false; n];
        for &p in pos {
            bits[p] = true;
        }
        BitModel::new(bits)
    }
    pub fn len(&self) -> usize {
        self.bits.len()
    }
    pub fn rank1(&self, i: usize) -> usize {
        self.ones.partition_point(|&p| p < i)
    }
    pub fn rank0(&self, i: usize) -> usize {
        self.zeros.partition_point(|&p| p < i)
    }
    pub fn get_bits(&self, index: usize, len: usize) -> u64 {
        let mut v = 0u64;
        for j in 0..len {
            if self.bits[index + j] {
                v |= 1u64 << j;
            }
        }
        v
    }
    pub fn word(&self, w: usize) -> u64 {
        let mut v = 0u64;
        for j in 0..64 {
            let p = w * 64 + j;
            if p < self.bits.len() && self.bits[p] {
                v |= 1u64 << j;
            }
        }
        v
    }
}

pub struct QuadModel {
    pub seq: Vec<u8>,
    pub occ: [Vec<usize>; 4],
}

impl QuadModel {
    pub fn new(seq: Vec<u8>) -> Self {
        let mut occ: [Vec<usize>; 4] = Default::default();
        for (i, &s) in seq.iter().enumerate() {
            occ[s as usize].push(i);
        }
        QuadModel { seq, occ }
    }
    pub fn len(&self) -> usize {
        self.seq.len()
    }
    pub fn rank(&self, s: u8, i: usize) -> usize {
        self.occ[s as usize].partition_point(|&p| p < i)
    }
    pub fn select(&self, s: u8, k: usize) -> Option<usize> {
        self.occ[s as usize].get(k).copied()
    }
    pub fn occs(&self, s: u8) -> usize {
        self.occ[s as usize].len()
    }
    pub fn occs_smaller(&self, s: u8) -> usize {
        (0..s as usize).map(|t| self.occ[t].len()).sum()
    }
}
