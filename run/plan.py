"""Per-property plans: which lanes run in which tier, coverage gates, evidence texts."""

N = 16

COMMON_ASSUMPTIONS = [
    "verdict covers only the executions produced in this run (seeded, boundary-directed sampling; not a proof)",
    "reference models (naive Vec-based rank/select) are correct; they share no code with qwt and are cross-checked by run/logcheck.py",
    "sequence lengths near the documented 2^43 limit and allocation failure are out of reach",
]

TREE_RULE = ("cases = (tree type alias x element type x input spec x construction path [x tie order]); input specs come from "
             "harness/src/catalogue.rs: every boundary length (0,1,2,3, b-1,b,b+1 for b in 128..65536, k*2048+1), every alphabet shape "
             "(one symbol, 2..1025 symbols, holes, values up to the type maximum, >32-bit and >64-bit values), distributions "
             "(uniform, equal, zipf, geometric, dominant, tie-free deep codes) and layouts (iid, sorted, blocks, periodic, rare first/last), "
             "plus seeded random specs. Every case runs the query battery (get/rank/select/rank_prefetch/iter on valid, boundary and invalid "
             "arguments) against the model. A case class is (type, length bucket, alphabet class, distribution, layout, path); it is counted "
             "as distinct+non-trivial only if n >= 2 and at least one successful non-None, non-zero answer was compared.")

PLANS = {
    "C01": dict(
        logcheck=True,
        lanes=dict(quick=[("rel", N), ("dbg", N), ("miri", N)],
                   thorough=[("rel", N), ("dbg", N), ("asan", N), ("miri", N), ("mirirel", N)]),
        rule=TREE_RULE,
        assumptions=COMMON_ASSUMPTIONS,
        gates=dict(rel=dict(max_levels=64, max_select_samples_one_symbol=3, max_n=300000)),
    ),
    "C02": dict(
        logcheck=True,
        lanes=dict(quick=[("rel", N), ("dbg", N), ("miri", N)],
                   thorough=[("rel", N), ("dbg", N), ("asan", N), ("miri", N), ("mirirel", N)]),
        rule=TREE_RULE + " Huffman-shaped trees are built several times per input: with the natural hash-map order and with "
             "seeded tie-break orders (hook); the code-length profile of every construction is recorded.",
        assumptions=COMMON_ASSUMPTIONS + ["symbol values are kept <= 2^20 (the structure allocates a table indexed by symbol value)"],
        gates=dict(rel=dict(max_distinct_level_lengths=3, max_distinct_code_lengths=3, single_symbol_huffman_trees=1,
                            max_distinct_tie_forms_one_input=2)),
    ),
    "C03": dict(
        logcheck=True,
        lanes=dict(quick=[("rel", N), ("dbg", N), ("miri", N)],
                   thorough=[("rel", N), ("dbg", N), ("asan", N), ("miri", N), ("mirirel", N)]),
        rule=TREE_RULE,
        assumptions=COMMON_ASSUMPTIONS,
        gates=dict(rel=dict(max_levels=64, max_distinct_level_lengths=3, single_symbol_huffman_trees=1)),
    ),
    "C04": dict(
        lanes=dict(quick=[("rel", N), ("dbg", N), ("asan", N), ("miri", N), ("mirirel", N)],
                   thorough=[("rel", N), ("dbg", N), ("asan", N), ("miri", N), ("mirirel", N), ("memcheck", N)]),
        rule="cases = (public type x way of obtaining a value x input): the 10 tree aliases x 6 element types, RSQVector256/512, QVector(+Builder), "
             "RSNarrow, RSWide, DArray<false/true>, BitVector, BitVectorMut; states: every constructor on empty and non-empty input, Default, Clone, "
             "conversions, deserialization of a serialized value. On every state: the full query battery plus hostile argument products "
             "(positions 0,1,2,63,64,n-2..n+2,n+255..n+4096,2n+1,u32::MAX,2^43+1,2^63,usize::MAX-1,usize::MAX; every quad symbol 0..=255; tree symbols "
             "0,1,max,max+1,max+2,T::MAX,2^32+s,2^64+s,2^100; every (index,len) pair of those sets for get_bits/set_bits/append_bits; arbitrary "
             "prefetch positions), all remaining safe methods (space usage, Debug, iterators run past exhaustion). Outcome classifier: value per "
             "model, None for invalid arguments, panics only for the documented (operation, argument predicate) pairs. The same cases run in "
             "release, debug-assertions+overflow-checks, ASan and Miri (dev and release) builds; process deaths are attributed through the journal. "
             "Class = (lane, type, family, length/kind bucket).",
        assumptions=COMMON_ASSUMPTIONS + ["size-like arguments (with_capacity, with_zeros, extend_with_zeros) are kept <= 2^24: beyond that only allocation failure is possible, which the property permits"],
        class_per_lane=True,
        gates=dict(any=dict()),
    ),
    "C05": dict(
        logcheck=True,
        lanes=dict(quick=[("rel", N), ("dbg", N), ("miri", N)],
                   thorough=[("rel", N), ("dbg", N), ("asan", N), ("miri", N), ("mirirel", N)]),
        rule="cases = (RSQVector256|RSQVector512) x quaternary input spec x construction path (new(&[u8]), new(&[u64]), From<QVector>, collect); "
             "specs: every boundary length (around 128/256/512/2048/4096/8192/...), symbol mixes (uniform, constant, periodic, runs, one rare "
             "symbol, skewed, two symbols), occurrence counts around 8192*k, seeded random. Battery: len/is_empty/get/rank/select/occs/"
             "occs_smaller/iterators on valid, boundary and invalid arguments (symbols 4..255, positions past the end). Class = (type, length "
             "bucket, mix, path); non-trivial iff n >= 2 and a non-zero rank or a select position was compared.",
        assumptions=COMMON_ASSUMPTIONS,
        gates=dict(rel=dict(max_select_samples_one_symbol=3, max_superblocks=20, huge_superblocks=65536)),
    ),
    "C06": dict(
        logcheck=True,
        lanes=dict(quick=[("rel", N), ("dbg", N), ("miri", N)],
                   thorough=[("rel", N), ("dbg", N), ("asan", N), ("miri", N), ("mirirel", N)]),
        rule="cases = (RSNarrow|RSWide) x bit-vector spec x construction path (new/From, from bools / from positions); specs: boundary lengths "
             "(multiples of 64, 512, 4096, 32768 +-1), densities 0..100 %, runs, every-64th, clustered, ones/zeros counts crossing the hint "
             "periods (1024 / 8192), seeded random. Battery: get/rank1/rank0/select1/select0/n_ones/n_zeros/bv_len on valid, boundary and "
             "invalid arguments. Non-trivial iff n >= 2 and a non-zero rank or a select position was compared.",
        assumptions=COMMON_ASSUMPTIONS,
        gates=dict(rel=dict(max_ones=3 * 8192, max_zeros=3 * 8192, huge_n=1 << 28)),
    ),
    "C07": dict(
        lanes=dict(quick=[("rel", N), ("dbg", N)],
                   thorough=[("rel", N), ("dbg", N), ("asan", N), ("miri", N)]),
        rule="cases = DArray<false|true> x input (concatenation of groups of ones: dense (span < 65536), sparse, exactly at the threshold "
             "(span 65535/65536/65537), partial last groups incl. one whose last one is a sub-group head; all 2- and 3-group orders, random "
             "mixtures; and the complement for the zero inventories; plus generic bit specs) x constructor (bits / positions / new). Battery: "
             "select1 (and select0) for EVERY k below the count, None beyond; len/count_ones/count_zeros/get/ones()/zeros()/iter(). "
             "Class = (type, group-kind string, complement); non-trivial iff a select position was compared.",
        assumptions=COMMON_ASSUMPTIONS,
        gates=dict(rel=dict(dense_group_after_sparse_group=1, threshold_group=1, partial_last_group=1, select0_support_true=1,
                            select0_support_false=1, huge_n=1 << 28)),
    ),
    "C08": dict(
        lanes=dict(quick=[("rel", N), ("dbg", N), ("miri", N)],
                   thorough=[("rel", N), ("dbg", N), ("asan", N), ("miri", N)]),
        rule="cases = seeded operation histories (20..2000 operations drawn from push, append_bits, extend_with_zeros, set, set_bits, "
             "extend(bools), extend(positions); four profiles: small/every-op-observed, boundary-crossing, big jumps, overwrite-heavy) applied "
             "to a BitVectorMut and a Vec<bool> in lock-step. Observations: len/count_ones/count_zeros/is_empty/get after (almost) every "
             "operation; periodically and at the end get_bits for every 1<=len<=64 at starts around word/line boundaries and at the last legal "
             "start, get_word for every word incl. zero padding, iter/ones/zeros/ones_with_pos/zeros_with_pos; at the quiescent point "
             "conversion to BitVector and back, clone, collect from bools / positions (usize,u32,i64), == between vectors that reached the "
             "same bits through different histories and != for a flipped bit / an appended zero. Class = (profile, operation-count bucket).",
        assumptions=COMMON_ASSUMPTIONS + ["operations are called inside their documented preconditions (out-of-precondition calls belong to C04)"],
        gates=dict(rel=dict(histories_crossing_line_boundary=10, max_len=2000)),
    ),
    "C09": dict(
        lanes=dict(quick=[("rel", N), ("nopf", N), ("dbg", N), ("asan", N), ("miri", N)],
                   thorough=[("rel", N), ("nopf", N), ("dbg", N), ("asan", N), ("miri", N), ("mirirel", N)]),
        rule="cases = (8 quad tree aliases x element types x sequences of 2047..300000 symbols with 3..9 levels: dense/holed alphabets, "
             "Huffman profiles whose levels have different lengths (geometric, dominant, deep tie-free codes), layouts iid / frequent-leaf-after-rare / "
             "rare-first / blocks / sorted) + raw prefetch calls with arbitrary positions (RSQVector256/512, RSWide, BitVector::prefetch_line, "
             "utils::prefetch_read_NTA incl. an empty slice). Per case: the battery with rank_prefetch next to every rank (valid and invalid "
             "arguments), then a dense sweep rank/rank_prefetch/model at every position of the last sampling period(s) of level 0 for every symbol. "
             "Every case emits a digest of all answers; the orchestrator compares the digests of lane rel (feature prefetch on) and lane nopf "
             "(feature off) case by case. ASan and Miri lanes run the same workload (no dereference of an estimate).",
        assumptions=COMMON_ASSUMPTIONS + ["the estimator's internal ranges are deliberately not hooked; what is observed is answers, faults and digests"],
        gates=dict(rel=dict(huff_pfs_distinct_long_level_lengths=3, pfs_sampling_periods=30, max_levels_prefetched=9, raw_prefetch_calls=500)),
    ),
    "C10": dict(
        lanes=dict(quick=[("rel", N), ("dbg", N), ("asan", N), ("miri", N), ("mirirel", N)],
                   thorough=[("rel", N), ("dbg", N), ("asan", N), ("miri", N), ("mirirel", N)]),
        rule="the workloads of C01-C03 (all 10 tree types), C05 (RSQVector), C06 (RSNarrow/RSWide), C07 (DArray) and C08 (bit-vector histories), "
             "restricted to valid arguments: after every checked call that returned Some(v) the unchecked twin (get_unchecked, rank_unchecked, "
             "select_unchecked, rank_prefetch_unchecked, rank1/rank0_unchecked, select1/select0_unchecked, occs_unchecked, occs_smaller_unchecked, "
             "get_bits_unchecked) is called with the same arguments and must return exactly v. An unchecked method is never called outside its "
             "precondition. Lanes: optimised, debug-assertions+overflow-checks, ASan, Miri dev and release.",
        assumptions=COMMON_ASSUMPTIONS,
        class_per_lane=True,
        gates=dict(any=dict()),
        need_ops=["get_unchecked", "rank_unchecked", "select_unchecked", "rank_prefetch_unchecked", "rank1_unchecked", "rank0_unchecked",
                  "select1_unchecked", "select0_unchecked", "occs_unchecked", "occs_smaller_unchecked", "get_bits_unchecked"],
    ),
    "C11": dict(
        lanes=dict(quick=[("rel", N), ("dbg", N)],
                   thorough=[("rel", N), ("dbg", N), ("asan", N), ("miri", N)]),
        rule="cases = every serializable public type (10 tree aliases x 6 element types, RSQVector256/512, QVector, BitVector, BitVectorMut, RSNarrow, "
             "RSWide, DArray<false/true>) x a rotating share of the input catalogues of C01-C08 (always incl. the empty input) + the Default value "
             "of every type. Per case: bincode::serialize succeeds; deserialize succeeds; copy == original (both directions); re-serialization is "
             "byte-identical; the full query battery on the original and on the copy against the model, digests equal; space_usage equal.",
        assumptions=COMMON_ASSUMPTIONS,
        gates=dict(rel=dict(max_serialized_bytes=100000)),
    ),
    "C12": dict(
        lanes=dict(quick=[("rel", N), ("dbg", N), ("miri", N)],
                   thorough=[("rel", N), ("dbg", N), ("asan", N), ("miri", N)]),
        rule="cases = (10 tree types x element types x lengths 0..5000) each driving iter(), (&t).into_iter() and into_iter() through seeded "
             "call histories over {next, next_back, len} in four styles (mostly front, mostly back, alternating, random), continuing after "
             "exhaustion, against a window [front, back) on the input; plus BitVector/BitVectorMut iter/into_iter/ones/zeros, DArray "
             "iter/ones/zeros and QVector/RSQVector256/512 iter/into_iter (forward histories incl. calls after exhaustion, len() where the "
             "iterator is ExactSize). Non-trivial iff the sequence has >= 2 elements.",
        assumptions=COMMON_ASSUMPTIONS,
        gates=dict(rel=dict(tree_iterators_driven=100, bit_iterators_driven=12, quad_iterators_driven=8)),
    ),
    "C13": dict(
        lanes=dict(quick=[("rel", N), ("dbg", N), ("miri", N)],
                   thorough=[("rel", N), ("dbg", N), ("miri", N)]),
        rule="cases = QVectorBuilder histories (new/with_capacity/default; push(any u8), extend(i32), extend(u8), push-to-line-boundary) to "
             "target lengths around multiples of 128/256, and collect() of arbitrary values (MIN, MAX, negative, > 3) of all 12 primitive "
             "integer types into QVector and into QVectorBuilder(+extend). Oracle: two least significant bits of the two's-complement value. "
             "Observed: len, is_empty, get for every index and past the end, iter, (&qv).into_iter, into_iter, builder clone, ==.",
        assumptions=COMMON_ASSUMPTIONS,
        gates=dict(rel=dict(integer_types_collected=12, max_len=4096)),
    ),
    "C14": dict(
        lanes=dict(quick=[("rel", N)], thorough=[("rel", N), ("dbg", N)]),
        rule="cases = (QWT256/512(+Pfs), WT) x largest symbol in {0,1,3,4,15,16,255,256,65535,2^20,2^40,2^40+5,2^70+1} x n in {0,1,3001,100003,1000003 "
             "(+4000037 thorough)} x the three construction paths (new on a slice, From<Vec>, collect), plus RSQVector256/512 and RSWide (3 / 2 paths). "
             "Monitor: counting global allocator; retained = live heap bytes after construction and after every temporary incl. the input was dropped "
             "- live bytes before + size_of the value. Oracle: quad tree 8*retained <= (1+r+eps)*2*n*ceil(bitlen(max)/2) + levels*4KiB with r=1/8 "
             "(256) or 1/16 (512), eps=0.01 (0.02 with prefetch support); WT <= 1.05*n*bitlen + bitlen*4KiB; RSQVector (1+r+0.01)*2n+4KiB; RSWide "
             "1.05n+4KiB. bitlen and the level count are computed from the INPUT (an extra level in the structure breaks the bound). Allocation sizes "
             "are deterministic. Class = (type, length bucket, bitlen of the maximum).",
        assumptions=["the counting allocator sees every heap allocation of the process (single-threaded measurement window)",
                     "bitlen(0) is taken as 1 (the code's own convention)"],
        technique="counting-allocator space monitor with closed-form bound from (n, max)",
        gates=dict(rel=dict(max_n=1000000, max_levels=20)),
    ),
    "C15": dict(
        lanes=dict(quick=[("rel", N)], thorough=[("rel", N), ("dbg", N)]),
        rule="cases = (HQWT256/512(+Pfs), HWT) x frequency profiles (uniform over 2..1000 symbols, all-equal, zipf, geometric 2 and 4, one dominant "
             "symbol, single symbol, two symbols, holes up to 2^20, deep tie-free codes) x n in {1,2,5000,100003,1000003 (+3000017 thorough)}. H0 is "
             "computed from the input's frequencies in f64. Exact monitor (level lengths through the cfg(qwt_verif) accessor): sum(level lengths)*2 "
             "<= n*(H0+2) for quad, sum <= n*(H0+1) for binary, and never more level data than the plain tree over the same input. Heap monitor "
             "(counting allocator, no hook): 8*retained <= (1+r+eps)*n*(H0+k) + 16 B*(max+1) + levels*4KiB.",
        assumptions=["H0 in f64 with a 1e-9*n guard", "the counting allocator sees every heap allocation of the process"],
        technique="counting-allocator + level-length monitor against the entropy bound computed from the input",
        gates=dict(rel=dict(max_n=1000000, single_symbol_inputs=2)),
    ),
    "C16": dict(
        lanes=dict(quick=[("rel", N)], thorough=[("rel", N), ("dbg", N)]),
        rule="cases = every public SpaceUsage type: the 10 tree aliases x 7 (alphabet, element type) shapes x n in {0,1,3001,100003,1000003} x 3 "
             "construction paths; BitVector, BitVectorMut (collected, with spare capacity, grown by push, from positions), QVector, RSQVector256/512, "
             "RSNarrow, RSWide, DArray<false/true> (dense and sparse), Vec<T> with spare capacity, empty Vec with capacity, Box<[T]>, primitives. "
             "Oracle: |space_usage_byte - retained| <= 3% of retained + 256 B per component (+ 16 B*(max+1) + 4 KiB for Huffman code tables); "
             "space_usage_KiB/MiB/GiB == bytes/1024^k.",
        assumptions=["the counting allocator sees every heap allocation of the process"],
        technique="counting-allocator monitor vs reported space usage",
        gates=dict(rel=dict(max_n=1000000)),
    ),
    "C17": dict(
        lanes=dict(quick=[("rel", N), ("dbg", N), ("miri", N)],
                   thorough=[("rel", N), ("dbg", N), ("miri", N)]),
        rule="select_in_word: every byte value at every byte position x 5 backgrounds (zero, ones, random) x every k < 64 (covers all 2048 "
             "lookup-table entries), all 16-bit patterns in 4 positions, seeded random/sparse/dense/single-bit words x every k; "
             "select_in_word_u128 likewise (k < 128); popcnt_wide<1..8>; msb for every bit position of 11 integer types; "
             "stable_partition_of_4/2 for u8..u128 x every shift below the width vs a stable sort; text_remap vs sorted-distinct ranks. "
             "Oracles are naive bit scans / std stable sort.",
        assumptions=["oracles: naive bit scan, std::slice::sort_by_key (stable)", "only a sample of the 2^64 / 2^128 words is covered; the lookup table and every bit position / shift are covered exhaustively"],
        gates=dict(rel=dict(byte_table_positions_covered=8)),
    ),
    "C18": dict(
        bin="worker18",
        lanes=dict(quick=[("rel", N), ("tsan", N), ("miri", 8)],
                   thorough=[("rel", N), ("tsan", N), ("miri", N)]),
        env=dict(quick=dict(miri={"MIRIFLAGS": "-Zmiri-many-seeds=0..4"}),
                 thorough=dict(miri={"MIRIFLAGS": "-Zmiri-many-seeds=0..32"})),
        rule="(1) auto traits: worker18 is the only binary whose compilation requires Send + Sync of every public structure (10 tree aliases x 6 "
             "element types, bit/quad vectors, rank/select vectors, DArray, iterators); it is built per lane, a failure with E0277 on these bounds is "
             "the violation. (2) purity: for each structure a fixed seeded query plan (get/rank/select/rank_prefetch incl. invalid arguments) is "
             "evaluated twice (forwards, backwards), answers identical, serialized bytes identical before/after; rank queries interleaved over four "
             "live trees against the model. (3) concurrency: T in {2..16} threads share &v, start on a barrier and evaluate the same hot queries "
             "with seeded yield/spin jitter for several rounds; every answer is compared with the single-threaded answer (itself checked against "
             "the model), serialized bytes compared afterwards. Lanes: native (scale), ThreadSanitizer with an instrumented std (data races, exit "
             "66), Miri with several scheduler seeds (data-race detector + schedule randomisation) on small structures. Recorded: max in-flight "
             "threads, distinct completion orders.",
        assumptions=["schedules are those produced by 16 cores, TSan's and Miri's schedulers, not an enumeration",
                     "no delay is injected inside the library: queries have no suspension points",
                     "the Send + Sync half is a compile-time observation made while building the runtime harness"],
        technique="thread-sharing stress with single-thread oracle under ThreadSanitizer and Miri (many seeds); compile-time Send+Sync probe; purity via serialized-form comparison",
        class_per_lane=True,
        gates=dict(rel=dict(max_in_flight_threads=2, types_asserted_send_sync=73)),
        timeout=dict(quick=1500, thorough=6 * 3600),
    ),
    "C19": dict(
        lanes=dict(quick=[("rel", N), ("dbg", N)],
                   thorough=[("rel", N), ("dbg", N), ("miri", N)]),
        rule="cases = (10 tree aliases x 6 element types x a rotating share of the input catalogues): build through new(&mut [T]), From<Vec<T>> and "
             "collect; the three values answer the same seeded battery identically (digest) and, for the non-Huffman trees, compare equal; Clone == "
             "original (both directions) and answers identically; mutated neighbours (one element changed, last element changed, two different elements "
             "swapped, last element removed, one appended, maximum replaced by a larger symbol) built through a random path must compare UNEQUAL in both "
             "directions. Element widths: the same numbers in u8/u16/u32/u64/usize/u128 containers (three families, incl. values >= 2^32 for "
             "u64/usize/u128) answer the valid-argument battery identically. RSQVector256/512: new(u8)/new(u64)/From<QVector>/collect ==; RSNarrow/"
             "RSWide: new/From/via BitVectorMut ==; DArray<false/true>: new/collect<bool>/collect<usize> ==; BitVector/BitVectorMut: bools vs positions "
             "==; neighbours (bit flipped, last bit flipped/removed, zero appended) !=.",
        assumptions=COMMON_ASSUMPTIONS,
        gates=dict(rel=dict(width_families_compared=30)),
    ),
}


def build_failure_is_violation(prop, out):
    """A failed harness build is inconclusive, except for C18 where an auto-trait error on the
    Send/Sync probe is the observation itself."""
    if prop == "C18" and "E0277" in out and ("cannot be shared between threads safely" in out or "cannot be sent between threads safely" in out):
        return "E0277_send_sync"
    return None


def post_process(prop, tier, results, agg, rundir):
    if prop == "C09":
        return c09_feature_differential(results)
    return [], {}


def c09_feature_differential(results):
    """digest of every case in lane rel (feature prefetch on) vs lane nopf (feature off)"""
    dig = {}
    cases = {}
    feat = {}
    for (lane, s), r in results.items():
        for st in r.stats:
            feat.setdefault(lane, set()).add(bool(st.get("prefetch_feature")))
        for idx, notes in r.notes.items():
            for nt in notes:
                if nt.get("key") == "digest":
                    dig.setdefault(lane, {})[idx] = nt["v"]
                    cases[idx] = r.cases.get(idx)
    viols = []
    compared = 0
    if "rel" in dig and "nopf" in dig:
        for idx, d in dig["rel"].items():
            if idx in dig["nopf"]:
                compared += 1
                if dig["nopf"][idx] != d:
                    c = cases.get(idx) or {}
                    viols.append(dict(lane="rel+nopf", idx=idx, ty=c.get("ty", ""), op="feature_differential",
                                      args="digest of all answers of the case", exp=f"equal digests (rel={d})",
                                      got=f"nopf={dig['nopf'][idx]}", kind="digest_mismatch", tags=[], case=c, notes=[]))
    cov = dict(feature_differential_cases_compared=compared,
               prefetch_feature_by_lane={k: sorted(v) for k, v in feat.items()})
    return viols, cov


def check_gates(prop, tier, agg, lanes):
    """Gates are evaluated on the union over lanes; they only require that the mandatory cases ran."""
    P = PLANS[prop]
    report = {}
    unmet = []
    want = {}
    for lane, g in P.get("gates", {}).items():
        if lane in lanes or lane == "any":
            want.update(g)
    for k, need in want.items():
        have = max(agg["gates_max"].get(k, 0), agg["gates_sum"].get(k, 0))
        report[k] = dict(need=need, have=have)
        if have < need:
            unmet.append(f"{k}: need >= {need}, have {have}")
    for op in P.get("need_ops", []):
        have = agg["per_op"].get(op, 0)
        report["op:" + op] = dict(need=1, have=have)
        if have < 1:
            unmet.append(f"operation {op} was never exercised")
    if agg["evals"] == 0:
        unmet.append("no evaluations at all")
    return report, unmet

HOOK_COMMITS = ["8731cf7"]
NOT_APPLICABLE = {}


# Thorough tier: the seeded part of every catalogue is replicated with derived seeds. The factors are sized
# from measured lane times so that a thorough run takes roughly 10-40 minutes on 16 cores.
THOROUGH_REPS = {
    "C01": {"rel": 24, "dbg": 8, "asan": 6},
    "C02": {"rel": 12, "dbg": 8, "asan": 6},
    "C03": {"rel": 36, "dbg": 18, "asan": 12},
    "C04": {"rel": 120, "dbg": 72, "asan": 24, "miri": 2, "mirirel": 2, "memcheck": 1},
    "C05": {"rel": 1500, "dbg": 900, "asan": 450, "miri": 4, "mirirel": 4},
    "C06": {"rel": 2000, "dbg": 1200, "asan": 600, "miri": 4, "mirirel": 4},
    "C07": {"rel": 360, "dbg": 180, "asan": 72},
    "C08": {"rel": 16, "dbg": 16, "asan": 4},
    "C09": {"rel": 24, "nopf": 24, "dbg": 12, "asan": 9},
    "C10": {"rel": 8, "dbg": 4, "asan": 3},
    "C11": {"rel": 32, "dbg": 16, "asan": 8},
    "C12": {"rel": 300, "dbg": 150, "asan": 60, "miri": 3},
    "C13": {"rel": 1800, "dbg": 1200, "miri": 4},
    "C14": {"rel": 18, "dbg": 12},
    "C15": {"rel": 160, "dbg": 80},
    "C16": {"rel": 40, "dbg": 20},
    "C17": {"rel": 24, "dbg": 24, "miri": 6},
    "C18": {"rel": 6, "tsan": 6},
    "C19": {"rel": 12, "dbg": 8},
}
for _p, _r in THOROUGH_REPS.items():
    PLANS[_p].setdefault("reps", {})["thorough"] = _r


_SCALE = (" Scale cases (rel lane): structures over 1.3e8 .. 3.0e8 symbols/bits built from a streaming periodic input whose rank/select have "
          "closed forms (no O(n) model): more than 2^16 superblocks, positions and counts above 2^27/2^28, probed around those thresholds, at the "
          "ends and at random positions.")
for _p in ("C05", "C06", "C07"):
    PLANS[_p]["rule"] += _SCALE
PLANS["C01"]["rule"] += _SCALE + " (C01: thorough tier only, a 2-level QWT256Pfs over 1.3e8 symbols.)"
