#!/bin/bash
# runs every quick check in sequence exactly as registered in MANIFEST.json (development helper; evidence is rewritten)
cd "$(dirname "$0")/.."
for p in ${@:-C01 C02 C03 C04 C05 C06 C07 C08 C09 C10 C11 C12 C13 C14 C15 C16 C17 C18 C19}; do
  s=$(date +%s)
  python3 run/check.py $p --tier quick > /tmp/quick_run_$p.log 2>&1
  rc=$?
  e=$(date +%s)
  echo "$p rc=$rc wall=$((e-s))s $(grep -E '^\[summary' /tmp/quick_run_$p.log | cut -c1-200)"
  grep -E 'INCONC|^\[violation|^VIOLATION' /tmp/quick_run_$p.log | cut -c1-260 | head -5
done
