#!/usr/bin/env python3
"""Writes /verif/MANIFEST.json from run/plan.py (single source of truth for lanes and texts)."""
import json
import os
import sys

sys.path.insert(0, os.path.dirname(os.path.abspath(__file__)))
import plan  # noqa: E402

VERIF = os.path.dirname(os.path.dirname(os.path.abspath(__file__)))
ALL = [f"C{i:02d}" for i in range(1, 20)]

checks = []
for pid in ALL:
    if pid not in plan.PLANS:
        continue
    P = plan.PLANS[pid]
    ql = "+".join(l for l, _ in P["lanes"]["quick"])
    tl = "+".join(l for l, _ in P["lanes"]["thorough"])
    checks.append(dict(
        property_id=pid,
        quick_cmd=f"python3 run/check.py {pid} --tier quick",
        thorough_cmd=f"python3 run/check.py {pid} --tier thorough",
        evidence_file=f"/verif/evidence/{pid}.json",
        replay_cmd_template="python3 run/check.py --replay {path}",
        engine="qwt_verif",
        level_claimed=dict(
            category="exploration",
            text=P.get("level_text", "Runtime monitoring: the real code is run on seeded, boundary-directed and hostile workloads while a "
                       "reference-model oracle / invariant monitor / sanitizer watches every answer; the verdict is 'held on the executions "
                       "produced', with measured coverage in the evidence file.") + f" Lanes: quick = {ql}; thorough = {tl}.",
            design_ref=f"DESIGN.md §5 {pid}",
        ),
        level_note=P.get("level_note", "Trusted base: the naive reference models and the harness (cross-checked offline by run/logcheck.py), rustc/Miri/ASan. "
                         "Universal quantification over inputs is replaced by seeded sampling with mandatory boundary cases and coverage gates."),
        technique=P.get("technique", "reference-model runtime monitor over seeded query batteries; process-death journal; Miri/ASan lanes"),
    ))

na = [dict(property_id=pid, reason=plan.NOT_APPLICABLE.get(pid, "monitor not built yet (work in progress)"))
      for pid in ALL if pid not in plan.PLANS]

manifest = dict(
    version=1,
    setup_cmd="python3 run/check.py --setup",
    hooks=dict(
        guard="qwt_verif",
        enable='RUSTFLAGS="--cfg qwt_verif --check-cfg cfg(qwt_verif)" (set by run/check.py for every lane)',
        baseline_off_cmd="cd /repo && cargo test --workspace --no-fail-fast --offline --lib",
        source_commits=plan.HOOK_COMMITS,
        add_only=True,
    ),
    engines=[dict(name="qwt_verif", path="/verif/harness", serves_properties=[c["property_id"] for c in checks],
                  kind_free_text="Rust harness (worker binary: generators, reference models, monitors, panic/abort classifier, counting "
                                 "allocator) + Python orchestrator run/check.py (lanes: release, no-prefetch, debug-assertions, ASan, TSan, "
                                 "Miri dev/release, valgrind memcheck)")],
    checks=checks,
    notes="Technique family: runtime monitoring and sanitizers. See DESIGN.md. known_findings.json lists genuine defects "
          "(fixed ones with their fix: commit; the unrepaired one as KNOWN-FINDING).",
    not_applicable=na,
)
with open(os.path.join(VERIF, "MANIFEST.json"), "w") as f:
    json.dump(manifest, f, indent=1)
print(f"wrote MANIFEST.json: {len(checks)} checks, {len(na)} not_applicable")
