#!/usr/bin/env python3
"""Orchestrator of the qwt runtime monitors (see /verif/DESIGN.md §2).

  check.py <PROP> [--tier quick|thorough] [--lanes a,b] [--keep]
  check.py --setup                 build every lane once
  check.py --replay <file>         re-run the case recorded in a replay file

exit 0  property held on everything explored (known findings are printed as KNOWN-FINDING lines)
exit 1  a violation that known_findings.json does not list: "VIOLATION property=<id> replay=<path>"
exit 2  inconclusive (build problem unrelated to the property, watchdog, coverage gate not met)
"""
import hashlib
import json
import os
import re
import shutil
import signal
import subprocess
import sys
import time
from concurrent.futures import ThreadPoolExecutor

VERIF = os.path.dirname(os.path.dirname(os.path.abspath(__file__)))
HARNESS = os.path.join(VERIF, "harness")
BUILD = os.path.join(VERIF, ".build")
NCPU = os.cpu_count() or 8
BASE_RUSTFLAGS = "--cfg qwt_verif --check-cfg cfg(qwt_verif) -Awarnings"
TARGET = "x86_64-unknown-linux-gnu"

sys.path.insert(0, os.path.dirname(os.path.abspath(__file__)))
import plan  # noqa: E402  (per-property lanes, gates, evidence texts)

# ------------------------------------------------------------------------------------------------
# lanes
# ------------------------------------------------------------------------------------------------

LANES = {
    # the build users ship: optimised, no debug assertions, no overflow checks
    "rel": dict(profile="release", scale="full"),
    # crate feature `prefetch` off
    "nopf": dict(profile="release", scale="full", no_default_features=True),
    # debug assertions + overflow checks + std unsafe-precondition checks
    "dbg": dict(profile="dbg", scale="mid"),
    # AddressSanitizer, optimised
    "asan": dict(profile="release", scale="mid", toolchain="nightly",
                 rustflags="-Zsanitizer=address -Cforce-frame-pointers=yes", target=TARGET,
                 env={"ASAN_OPTIONS": "halt_on_error=1:abort_on_error=1:detect_leaks=0:allocator_may_return_null=1"}),
    # Miri, dev profile (debug assertions on) and release profile
    "miri": dict(profile="dev", scale="tiny", toolchain="nightly", miri=True,
                 rustflags="-Ctarget-feature=+popcnt"),
    "mirirel": dict(profile="release", scale="tiny", toolchain="nightly", miri=True,
                    rustflags="-Ctarget-feature=+popcnt"),
    # ThreadSanitizer (needs an instrumented std)
    "tsan": dict(profile="release", scale="mid", toolchain="nightly",
                 rustflags="-Zsanitizer=thread", target=TARGET, build_std=True,
                 env={"TSAN_OPTIONS": "halt_on_error=1:exitcode=66"}),
    # valgrind memcheck on the rel binary
    "memcheck": dict(profile="release", scale="tiny", valgrind=True, shares="rel"),
}


EXTRA_ENV = {}


def lane_env(lane):
    L = LANES[lane]
    env = dict(os.environ)
    env["CARGO_NET_OFFLINE"] = "true"
    env["RUSTFLAGS"] = (BASE_RUSTFLAGS + " " + L.get("rustflags", "")).strip()
    env.pop("RUSTC_WRAPPER", None)
    if L.get("miri"):
        env["MIRIFLAGS"] = os.environ.get("VERIF_MIRIFLAGS", "")
    for k, v in L.get("env", {}).items():
        env[k] = v
    for k, v in EXTRA_ENV.get(lane, {}).items():
        env[k] = v
    return env


def lane_dir(lane):
    L = LANES[lane]
    return os.path.join(BUILD, L.get("shares", lane))


def cargo_base(lane):
    L = LANES[lane]
    cmd = ["cargo"]
    if L.get("toolchain"):
        cmd.append("+" + L["toolchain"])
    return cmd


def build_args(lane):
    L = LANES[lane]
    a = ["--offline", "--manifest-path", os.path.join(HARNESS, "Cargo.toml"), "--target-dir", lane_dir(lane)]
    prof = L["profile"]
    if prof == "release":
        a.append("--release")
    elif prof != "dev":
        a += ["--profile", prof]
    if L.get("no_default_features"):
        a.append("--no-default-features")
    if L.get("target"):
        a += ["--target", L["target"]]
    if L.get("build_std"):
        a += ["-Zbuild-std"]
    return a


BIN = "worker"


def binary_path(lane):
    L = LANES[lane]
    prof = L["profile"]
    pdir = {"release": "release", "dev": "debug"}.get(prof, prof)
    d = lane_dir(lane)
    if L.get("target"):
        d = os.path.join(d, L["target"])
    return os.path.join(d, pdir, BIN)


_built = {}


def build_lane(lane, log):
    """Build (incrementally) the worker for a lane from /repo's current working tree.
    Returns (ok, output)."""
    key = LANES[lane].get("shares", lane)
    if (key, BIN) in _built:
        return _built[(key, BIN)]
    L = LANES[key]
    os.makedirs(lane_dir(key), exist_ok=True)
    # qwt's own Cargo.lock pins every dependency; keep the harness lock file in sync with it
    t0 = time.time()
    if L.get("miri"):
        cmd = cargo_base(key) + ["miri", "run", "--bin", BIN] + build_args(key) + ["--", "NOOP"]
    else:
        cmd = cargo_base(key) + ["build", "--bin", BIN] + build_args(key)
    benv = lane_env(key)
    if L.get("miri"):
        benv["MIRIFLAGS"] = ""   # the warm-up run needs no scheduler seeds
    p = subprocess.run(cmd, env=benv, cwd=HARNESS, stdout=subprocess.PIPE, stderr=subprocess.STDOUT, text=True)
    ok = p.returncode == 0
    log(f"[build] lane={key} ok={ok} {time.time() - t0:.1f}s")
    if not ok:
        log(p.stdout[-6000:])
    _built[(key, BIN)] = (ok, p.stdout)
    return _built[(key, BIN)]


def worker_cmd(lane, args):
    L = LANES[lane]
    if L.get("miri"):
        return cargo_base(lane) + ["miri", "run", "-q", "--bin", BIN] + build_args(lane) + ["--"] + args
    if L.get("valgrind"):
        return ["valgrind", "--error-exitcode=97", "--quiet", "--track-origins=no", "--leak-check=no",
                binary_path(lane)] + args
    return [binary_path(lane)] + args


# ------------------------------------------------------------------------------------------------
# running workers
# ------------------------------------------------------------------------------------------------

class ShardResult:
    def __init__(self):
        self.cases = {}       # idx -> case line
        self.done = set()
        self.done_evals = 0
        self.done_classes = set()
        self.viols = []       # viol dicts (with lane, case)
        self.events = []
        self.notes = {}       # idx -> [notes]
        self.stats = []       # stats lines (one per process segment)
        self.deaths = []      # dicts
        self.watchdog = False
        self.wall = 0.0


def parse_output(path, res, lane):
    last_open = None
    last_op = None
    got_stats = False
    with open(path, "r", errors="replace") as f:
        for line in f:
            line = line.strip()
            if not line.startswith("{"):
                continue
            try:
                j = json.loads(line)
            except Exception:
                continue
            t = j.get("t")
            if t == "case":
                res.cases[j["idx"]] = j
                last_open = j["idx"]
                last_op = None
            elif t == "done":
                res.done.add(j["idx"])
                res.done_evals += j.get("evals", 0)
                if j.get("nontrivial") and j["idx"] in res.cases:
                    res.done_classes.add(res.cases[j["idx"]].get("class", ""))
                if last_open == j["idx"]:
                    last_open = None
            elif t == "op":
                last_op = j
            elif t == "viol":
                j["lane"] = lane
                res.viols.append(j)
            elif t == "event":
                if len(res.events) < 40:
                    j["lane"] = lane
                    res.events.append(j)
            elif t == "note":
                res.notes.setdefault(j["idx"], []).append(j)
            elif t == "stats":
                res.stats.append(j)
                got_stats = True
    return got_stats, last_open, last_op


def describe_exit(rc):
    if rc is None:
        return "watchdog"
    if rc < 0:
        try:
            return "signal:" + signal.Signals(-rc).name
        except Exception:
            return f"signal:{-rc}"
    if rc == 134:
        return "abort:134"
    if rc == 66:
        return "tsan:66"
    if rc == 97:
        return "memcheck:97"
    return f"exit:{rc}"


def classify_stderr(lane, text):
    if "Undefined Behavior" in text:
        return "miri_ub"
    if "ERROR: AddressSanitizer" in text:
        return "asan"
    if "WARNING: ThreadSanitizer" in text:
        return "tsan"
    if "unsafe precondition(s) violated" in text:
        return "unsafe_precondition"
    if "Invalid read" in text or "Invalid write" in text or "uninitialised" in text:
        return "memcheck"
    if "memory allocation of" in text and "failed" in text:
        return "alloc_failure"
    return None


DBG_NOISE = re.compile(r"^\[/repo/src/bitvector/mod\.rs:\d+:\d+\] (pos|l) = \d+\s*$", re.M)


def stderr_excerpt(text, n=1800):
    # the library prints a stray dbg! in *_with_pos: not part of any report
    text = DBG_NOISE.sub("", text)
    text = re.sub(r"\n{2,}", "\n", text).strip()
    # keep the head of the first sanitizer / Miri / abort report
    for marker in ["error: Undefined Behavior", "ERROR: AddressSanitizer", "WARNING: ThreadSanitizer",
                   "unsafe precondition(s) violated", "Invalid read", "Invalid write", "panicked at"]:
        k = text.find(marker)
        if k >= 0:
            return text[k:k + n]
    return text[-n:]


def run_once(cmd, env, out_path, err_path, timeout):
    t0 = time.time()
    with open(out_path, "w") as fo, open(err_path, "w") as fe:
        try:
            p = subprocess.Popen(cmd, env=env, cwd=HARNESS, stdout=fo, stderr=fe, start_new_session=True)
            rc = p.wait(timeout=timeout)
        except subprocess.TimeoutExpired:
            try:
                os.killpg(p.pid, signal.SIGKILL)
            except Exception:
                pass
            p.wait()
            rc = None
    return rc, time.time() - t0


def reps_for(prop, tier, lane):
    """how many times the catalogue is replicated with derived seeds (thorough tier only)"""
    r = plan.PLANS[prop].get("reps", {}).get(tier, {})
    return int(r.get(lane, r.get("*", 1)))


def run_shard(prop, tier, lane, seed, shard, nshards, rundir, timeout, log, max_deaths=25):
    """Runs one shard to completion, restarting after each process death (a death is attributed to
    the journalled case, pinpointed with a --trace re-run, and the shard resumes after that case)."""
    L = LANES[lane]
    env = lane_env(lane)
    res = ShardResult()
    frm = 0
    seg = 0
    t0 = time.time()
    base = [prop, "--tier", tier, "--lane", lane, "--scale", L["scale"], "--seed", str(seed),
            "--shard", f"{shard}/{nshards}", "--reps", str(reps_for(prop, tier, lane))]
    while True:
        out = os.path.join(rundir, f"{lane}-{shard}-{seg}.jsonl")
        err = os.path.join(rundir, f"{lane}-{shard}-{seg}.err")
        rc, _ = run_once(worker_cmd(lane, base + ["--from", str(frm)]), env, out, err, timeout)
        got_stats, open_case, _ = parse_output(out, res, lane)
        errtxt = open(err, errors="replace").read()
        if rc is None:
            res.watchdog = True
            log(f"[watchdog] lane={lane} shard={shard} after {timeout}s (case {open_case})")
            break
        if rc == 0 and got_stats:
            break
        # the process died
        how = classify_stderr(lane, errtxt) or describe_exit(rc)
        death = dict(lane=lane, shard=shard, rc=rc, how=how, idx=open_case,
                     case=res.cases.get(open_case), stderr=stderr_excerpt(errtxt), op=None)
        if open_case is None:
            # died outside any case (start-up or final stats): nothing to attribute to
            death["how"] = how + "/outside_case"
            res.deaths.append(death)
            break
        # pinpoint the operation with a traced single-case re-run
        tout = os.path.join(rundir, f"{lane}-{shard}-{seg}.trace.jsonl")
        terr = os.path.join(rundir, f"{lane}-{shard}-{seg}.trace.err")
        tbase = [prop, "--tier", tier, "--lane", lane, "--scale", L["scale"], "--seed", str(seed),
                 "--shard", f"{shard}/{nshards}", "--reps", str(reps_for(prop, tier, lane)), "--only", str(open_case), "--trace"]
        trc, _ = run_once(worker_cmd(lane, tbase), env, tout, terr, timeout)
        tmp = ShardResult()
        _, _, last_op = parse_output(tout, tmp, lane)
        if trc is not None and trc != 0 and last_op is not None:
            death["op"] = dict(op=last_op.get("op"), args=last_op.get("args"))
        death["reproduced"] = (trc is not None and trc != 0)
        res.deaths.append(death)
        if len(res.deaths) >= max_deaths:
            log(f"[deaths] lane={lane} shard={shard}: {len(res.deaths)} process deaths, giving up on the rest of the shard")
            res.gave_up = True
            break
        frm = open_case + 1
        seg += 1
    res.wall = time.time() - t0
    return res


# ------------------------------------------------------------------------------------------------
# known findings
# ------------------------------------------------------------------------------------------------

def load_known():
    p = os.path.join(VERIF, "known_findings.json")
    if not os.path.exists(p):
        return []
    with open(p) as f:
        data = json.load(f)
    return [e for e in data.get("findings", []) if e.get("status") == "known"]


def signature(prop, v):
    """v: dict(ty, op, kind, tags)"""
    return dict(property=prop, ty=v.get("ty") or "", op=v.get("op") or "", kind=v.get("kind") or "",
                tags=sorted(v.get("tags") or []))


def match_known(sig, known, v=None):
    for e in known:
        m = e["match"]
        if "got" in m and not re.fullmatch(m["got"], str((v or {}).get("got", "")), re.S):
            continue
        if e["property"] != sig["property"]:
            continue
        if "tag" in m and m["tag"] not in sig["tags"]:
            continue
        if "ty" in m and not re.fullmatch(m["ty"], sig["ty"]):
            continue
        if "op" in m and not re.fullmatch(m["op"], sig["op"]):
            continue
        if "kind" in m and not re.fullmatch(m["kind"], sig["kind"]):
            continue
        return e
    return None


# ------------------------------------------------------------------------------------------------
# main check
# ------------------------------------------------------------------------------------------------

def main_check(prop, tier, only_lanes=None, keep=False):
    seed = int(os.environ.get("VERIF_SEED", "1"))
    t_start = time.time()
    global BIN
    P = plan.PLANS[prop]
    BIN = P.get("bin", "worker")
    EXTRA_ENV.clear()
    EXTRA_ENV.update(P.get("env", {}).get(tier, {}))
    lanes = P["lanes"][tier]
    if only_lanes:
        lanes = [(l, n) for (l, n) in lanes if l in only_lanes]
    rundir = os.path.join(BUILD, "run", f"{prop}-{tier}")
    shutil.rmtree(rundir, ignore_errors=True)
    os.makedirs(rundir, exist_ok=True)
    logf = open(os.path.join(rundir, "check.log"), "w")

    def log(msg):
        print(msg, flush=True)
        logf.write(msg + "\n")
        logf.flush()

    log(f"[check] property={prop} tier={tier} seed={seed} lanes={[l for l, _ in lanes]}")
    inconclusive = []
    build_viol = []
    usable = []
    for lane, n in lanes:
        ok, out = build_lane(lane, log)
        if ok:
            usable.append((lane, n))
            continue
        bv = plan.build_failure_is_violation(prop, out)
        if bv:
            build_viol.append(dict(lane=lane, ty="<build>", op="build", kind="compile_error:" + bv,
                                   tags=[], args="", exp="harness builds", got=out[-1500:], idx=None))
        else:
            inconclusive.append(f"lane {lane} failed to build")

    timeout = P.get("timeout", {}).get(tier, 1500 if tier == "quick" else 6 * 3600)
    jobs = []
    for lane, n in usable:
        for s in range(n):
            jobs.append((lane, s, n))
    results = {}
    with ThreadPoolExecutor(max_workers=NCPU) as ex:
        futs = {ex.submit(run_shard, prop, tier, lane, seed, s, n, rundir, timeout, log): (lane, s)
                for (lane, s, n) in jobs}
        for f, key in futs.items():
            results[key] = f.result()

    # ---- aggregate
    known = load_known()
    agg = dict(evals=0, cases=0, per_op={}, classes=set(), gates_max={}, gates_sum={}, gates_set={},
               per_lane={}, viols_suppressed=0)
    all_viols = list(build_viol)
    samples = []
    all_events = []
    for (lane, s), r in sorted(results.items()):
        pl = agg["per_lane"].setdefault(lane, dict(shards=0, cases=0, evals=0, deaths=0, wall_s=0.0, violations=0))
        pl["shards"] += 1
        pl["wall_s"] = max(pl["wall_s"], round(r.wall, 1))
        if r.watchdog:
            inconclusive.append(f"watchdog fired in lane {lane} shard {s}")
        if getattr(r, "gave_up", False):
            inconclusive.append(f"too many process deaths in lane {lane} shard {s}")
        # cases / evaluations are counted from the per-case `done` journal lines, so that work done
        # by a process that later died is not lost
        agg["evals"] += r.done_evals
        agg["cases"] += len(r.done)
        pl["cases"] += len(r.done)
        pl["evals"] += r.done_evals
        for c in r.done_classes:
            agg["classes"].add(lane + "|" + c if P.get("class_per_lane") else c)
        for st in r.stats:
            agg["viols_suppressed"] += st.get("viols_suppressed", 0)
            for k, v in st["per_op"].items():
                agg["per_op"][k] = agg["per_op"].get(k, 0) + v
            for k, v in st["gates_max"].items():
                agg["gates_max"][k] = max(agg["gates_max"].get(k, 0), v)
            for k, v in st["gates_sum"].items():
                agg["gates_sum"][k] = agg["gates_sum"].get(k, 0) + v
            for k, v in st["gates_set"].items():
                agg["gates_set"].setdefault(k, set()).update(v)
        for v in r.viols:
            v["case"] = r.cases.get(v["idx"])
            v["notes"] = r.notes.get(v["idx"], [])
            all_viols.append(v)
            pl["violations"] += 1
        for d in r.deaths:
            pl["deaths"] += 1
            c = d.get("case") or {}
            all_viols.append(dict(lane=lane, idx=d["idx"], ty=c.get("ty", "<none>"),
                                  op=(d.get("op") or {}).get("op") or "<process>",
                                  args=(d.get("op") or {}).get("args", ""),
                                  exp="process survives", got=d["stderr"], kind="died:" + d["how"],
                                  tags=[], case=c, notes=r.notes.get(d["idx"], []),
                                  reproduced=d.get("reproduced")))
        for e in r.events:
            c = r.cases.get(e["idx"], {})
            all_events.append(dict(lane=lane, case=dict(ty=c.get("ty"), desc=c.get("desc")),
                                   op=e["op"], args=e["args"], got=e["got"]))

    # samples: a handful of recorded operations, preferring distinct operations and informative ones
    boring = {"len", "is_empty", "sigma", "build", "n_ones", "n_zeros", "count_ones", "count_zeros"}
    seen_ops = set()
    for e in sorted(all_events, key=lambda e: (e["op"] in boring, e["lane"] != "rel")):
        if e["op"] in seen_ops and len(seen_ops) < 6:
            continue
        seen_ops.add(e["op"])
        samples.append(e)
        if len(samples) >= 8:
            break

    # post-processing hooks of the property (cross-lane comparisons etc.)
    extra_viols, extra_cov = plan.post_process(prop, tier, results, agg, rundir)
    all_viols.extend(extra_viols)

    # offline re-check of the recorded event log with the independent Python model
    if P.get("logcheck"):
        try:
            lp = subprocess.run([sys.executable, os.path.join(VERIF, "run", "logcheck.py"), rundir],
                                stdout=subprocess.PIPE, stderr=subprocess.PIPE, text=True, timeout=600)
            lc = json.loads(lp.stdout.strip().splitlines()[-1])
            extra_cov["oracle_selfcheck"] = dict(events_rechecked=lc["rechecked"], cases_with_dumped_input=lc["cases_with_input"],
                                                 by_op=lc["by_op"], disagreements=lc["n_disagreements"])
            if lc["n_disagreements"]:
                log("[logcheck] the Rust oracle accepted answers the independent Python model rejects: " + json.dumps(lc["disagreements"][:3]))
                inconclusive.append("oracle self-check (run/logcheck.py) found disagreements between the Rust oracle and the Python model")
        except Exception as ex:  # noqa: BLE001
            extra_cov["oracle_selfcheck"] = dict(error=str(ex))

    # tags of deaths: inherit from the notes of the case (a died case cannot tag itself)
    for v in all_viols:
        if v["kind"].startswith("died:") and v.get("notes"):
            for nt in v["notes"]:
                if nt.get("key") == "tag":
                    v.setdefault("tags", []).append(nt["v"])

    new_viols, known_hits = [], {}
    for v in all_viols:
        sig = signature(prop, v)
        e = match_known(sig, known, v)
        if e:
            known_hits.setdefault(e["id"], []).append(v)
        else:
            v["sig"] = sig
            new_viols.append(v)

    # ---- gates
    gate_report, unmet = plan.check_gates(prop, tier, agg, [l for l, _ in usable])
    if not only_lanes:
        for g in unmet:
            inconclusive.append("coverage gate not met: " + g)

    # ---- replay files, dedup by signature
    os.makedirs(os.path.join(VERIF, "replays"), exist_ok=True)
    seen = {}
    for v in new_viols:
        key = json.dumps(v["sig"], sort_keys=True)
        seen.setdefault(key, []).append(v)
    viol_lines = []
    for key, vs in seen.items():
        v = vs[0]
        h = hashlib.sha1(key.encode()).hexdigest()[:10]
        path = os.path.join(VERIF, "replays", f"{prop}-{h}.json")
        c = v.get("case") or {}
        rec = dict(property=prop, tier=tier, seed=seed, lane=v.get("lane"), reps=reps_for(prop, tier, v.get("lane")) if v.get("lane") in LANES else 1,
                   signature=v["sig"],
                   occurrences=len(vs), case_index=v.get("idx"), case=c, op=v.get("op"), args=v.get("args"),
                   expected=v.get("exp"), observed=v.get("got"), kind=v.get("kind"), notes=v.get("notes"),
                   replay_cmd=f"python3 run/check.py --replay {os.path.relpath(path, VERIF)}")
        with open(path, "w") as f:
            json.dump(rec, f, indent=1, default=str)
        viol_lines.append((path, v, len(vs)))

    for kid, vs in sorted(known_hits.items()):
        e = [k for k in known if k["id"] == kid][0]
        print(f"KNOWN-FINDING: property={prop} {e['what']} (id={kid}, {len(vs)} observation(s) in this run)")

    # a known finding that should be observable in this tier but was not seen
    for e in known:
        if e["property"] == prop and tier in e.get("expected_in_tiers", []) and e["id"] not in known_hits and not only_lanes:
            log(f"[note] known finding {e['id']} was not observed in this run (fixed or input no longer generated?)")

    wall = time.time() - t_start
    status = "violated" if new_viols else ("inconclusive" if inconclusive else "held")
    # ---- evidence
    ev = dict(
        property_id=prop, tier=tier, seed=seed, level="exploration",
        coverage=dict(
            evaluations=int(agg["evals"]),
            distinct_nontrivial=len(agg["classes"]),
            rule=P["rule"],
            samples=samples if samples else [dict(note="no sampled events in this run")],
            cases=agg["cases"],
            per_operation=dict(sorted(agg["per_op"].items())),
            per_lane=agg["per_lane"],
            gates=gate_report,
            gates_max=agg["gates_max"],
            gates_sum=agg["gates_sum"],
            gates_set_sizes={k: len(v) for k, v in agg["gates_set"].items()},
            known_findings_observed={k: len(v) for k, v in known_hits.items()},
            violations_suppressed_after_cap=agg["viols_suppressed"],
            verdict=status,
            inconclusive_reasons=inconclusive,
            **extra_cov,
        ),
        assumptions=P["assumptions"],
        wall_s=round(wall, 1),
        violations=len(new_viols),
    )
    os.makedirs(os.path.join(VERIF, "evidence"), exist_ok=True)
    with open(os.path.join(VERIF, "evidence", f"{prop}.json"), "w") as f:
        json.dump(ev, f, indent=1, default=str)

    log(f"[summary] property={prop} tier={tier} verdict={status} cases={agg['cases']} evaluations={agg['evals']} "
        f"classes={len(agg['classes'])} new_violations={len(new_viols)} known={sum(len(v) for v in known_hits.values())} wall={wall:.1f}s")
    for lane, pl in agg["per_lane"].items():
        log(f"[lane] {lane}: {pl}")
    for path, v, cnt in viol_lines[:40]:
        c = v.get("case") or {}
        log(f"[violation] lane={v.get('lane')} ty={v.get('ty')} op={v.get('op')} args={str(v.get('args'))[:120]} "
            f"exp={str(v.get('exp'))[:80]} got={str(v.get('got'))[:200]!r} kind={v.get('kind')} x{cnt}")
        print(f"VIOLATION property={prop} replay={path}")
    if not keep and status == "held":
        for fn in os.listdir(rundir):
            if fn.endswith(".jsonl") or fn.endswith(".err"):
                try:
                    os.remove(os.path.join(rundir, fn))
                except OSError:
                    pass
    if new_viols:
        return 1
    if inconclusive:
        for r in inconclusive:
            print(f"INCONCLUSIVE property={prop} reason={r}")
        return 2
    return 0


def main_replay(path):
    with open(path) as f:
        rec = json.load(f)
    prop, tier, lane, seed = rec["property"], rec["tier"], rec["lane"], rec["seed"]
    global BIN
    BIN = plan.PLANS[prop].get("bin", "worker")
    idx = rec["case_index"]
    if idx is None or lane not in LANES:
        print("this replay file has no runnable case (build-time observation); re-run the check instead")
        return 2
    ok, out = build_lane(lane, print)
    if not ok:
        print(out[-3000:])
        return 2
    L = LANES[lane]
    args = [prop, "--tier", tier, "--lane", lane, "--scale", L["scale"], "--seed", str(seed), "--reps", str(rec.get("reps", 1)),
            "--only", str(idx), "--trace"]
    p = subprocess.run(worker_cmd(lane, args), env=lane_env(lane), cwd=HARNESS, stdout=subprocess.PIPE,
                       stderr=subprocess.PIPE, text=True)
    viols = [json.loads(l) for l in p.stdout.splitlines() if l.startswith('{"t":"viol"')]
    ops = [l for l in p.stdout.splitlines() if l.startswith('{"t":"op"')]
    print(f"exit={describe_exit(p.returncode) if p.returncode else 0} violations={len(viols)}")
    for v in viols[:10]:
        print(json.dumps(v))
    if p.returncode != 0:
        if ops:
            print("last journalled operation:", ops[-1])
        print(stderr_excerpt(p.stderr))
    return 1 if (viols or p.returncode != 0) else 0


def main_setup():
    ok_all = True
    lanes = [l for l in LANES if not LANES[l].get("shares")]
    global BIN
    for lane in lanes:
        BIN = "worker"
        ok, out = build_lane(lane, print)
        ok_all = ok_all and ok
    for lane in ("rel", "tsan", "miri"):
        BIN = "worker18"
        ok, out = build_lane(lane, print)
        ok_all = ok_all and ok
    return 0 if ok_all else 1


def main():
    a = sys.argv[1:]
    if not a:
        print(__doc__)
        return 64
    if a[0] == "--setup":
        return main_setup()
    if a[0] == "--replay":
        return main_replay(a[1])
    prop = a[0]
    tier = os.environ.get("VERIF_TIER", "quick")
    lanes = None
    keep = False
    i = 1
    while i < len(a):
        if a[i] == "--tier":
            tier = a[i + 1]
            i += 1
        elif a[i] == "--lanes":
            lanes = a[i + 1].split(",")
            i += 1
        elif a[i] == "--keep":
            keep = True
        i += 1
    if prop not in plan.PLANS or tier not in ("quick", "thorough"):
        print("unknown property or tier")
        return 64
    return main_check(prop, tier, lanes, keep)


if __name__ == "__main__":
    sys.exit(main())
