#!/bin/bash
# development helper: time the thorough tier of the given properties restricted to some lanes
# usage: thorough_lanes.sh <lanes> <minutes> C01 C02 ...
cd "$(dirname "$0")/.."
lanes=$1; mins=$2; shift 2
for p in "$@"; do
  s=$(date +%s)
  timeout ${mins}m python3 run/check.py $p --tier thorough --lanes $lanes > /tmp/thl_$p.log 2>&1
  rc=$?
  e=$(date +%s)
  echo "$p lanes=$lanes rc=$rc wall=$((e-s))s $(grep -E '^\[summary' /tmp/thl_$p.log | cut -c1-200)"
  grep -E '^\[lane|INCONC|^\[violation|^VIOLATION' /tmp/thl_$p.log | cut -c1-220 | head -8
done
