#!/usr/bin/env python3
"""Confirm a seeded change and run the checks against it.

  seedtest.py confirm <dir>            dir holds patch.diff, demo.rs, meta.json; uses a scratch worktree
  seedtest.py detect  <dir> <PROP> [--lanes a,b] [--tier quick]
                                       applies the patch to /repo, runs the check, ALWAYS undoes the patch

Results are appended to <dir>/results.json.
"""
import json
import os
import subprocess
import sys
import time

REPO = "/repo"


def sh(cmd, cwd=None, timeout=3600, env=None):
    p = subprocess.run(cmd, cwd=cwd, shell=isinstance(cmd, str), stdout=subprocess.PIPE, stderr=subprocess.STDOUT, text=True,
                       timeout=timeout, env=env)
    return p.returncode, p.stdout


def load_results(d):
    p = os.path.join(d, "results.json")
    if os.path.exists(p):
        return json.load(open(p))
    return {}


def save_results(d, r):
    json.dump(r, open(os.path.join(d, "results.json"), "w"), indent=1)


def confirm(d):
    d = os.path.abspath(d)
    meta = json.load(open(os.path.join(d, "meta.json")))
    wt = f"/tmp/confirm-wt-{os.getpid()}"
    res = dict(at=time.strftime("%Y-%m-%dT%H:%M:%S"))
    rc, out = sh(f"git -C {REPO} worktree add -q --detach {wt} HEAD")
    try:
        rc, out = sh(f"git apply --check {d}/patch.diff && git apply {d}/patch.diff", cwd=wt)
        res["patch_applies"] = rc == 0
        if rc != 0:
            res["error"] = out[-500:]
            return res
        rc, out = sh("git diff --stat", cwd=wt)
        res["only_src_touched"] = all(l.strip().startswith("src/") for l in out.splitlines()[:-1] if "|" in l)
        rc, out = sh("cargo test --workspace --no-fail-fast --offline --lib 2>&1 | tail -3", cwd=wt)
        res["unit_tests_with_patch"] = "64 passed; 0 failed" in out
        os.makedirs(os.path.join(wt, "examples"), exist_ok=True)
        sh(f"cp {d}/demo.rs {wt}/examples/seed_demo.rs")
        demo_cmd = meta.get("demo_cmd", "")
        debug = ("--release" not in demo_cmd) or "debug" in str(meta.get("needs_to_manifest", "")).lower() and "--release" not in demo_cmd
        prof = [] if debug else ["--release"]
        cmd = ["cargo", "run", "--offline", "--example", "seed_demo"] + prof
        rc1, out1 = sh(cmd, cwd=wt, timeout=1800)
        res["demo_profile"] = "debug" if debug else "release"
        res["demo_with_patch_rc"] = rc1
        res["demo_with_patch_tail"] = out1[-400:]
        sh("git checkout -- src", cwd=wt)
        rc2, out2 = sh(cmd, cwd=wt, timeout=1800)
        res["demo_without_patch_rc"] = rc2
        res["confirmed"] = bool(res["patch_applies"] and res["unit_tests_with_patch"] and rc1 != 0 and rc2 == 0)
        if not res["confirmed"] and rc1 == 0 and not debug:
            # maybe it needs a debug build after all
            sh(f"git apply {d}/patch.diff", cwd=wt)
            cmd = ["cargo", "run", "--offline", "--example", "seed_demo"]
            rc1, out1 = sh(cmd, cwd=wt, timeout=1800)
            sh("git checkout -- src", cwd=wt)
            rc2, out2 = sh(cmd, cwd=wt, timeout=1800)
            res["demo_profile"] = "debug (release build does not show it)"
            res["demo_with_patch_rc"] = rc1
            res["demo_with_patch_tail"] = out1[-400:]
            res["demo_without_patch_rc"] = rc2
            res["confirmed"] = bool(res["unit_tests_with_patch"] and rc1 != 0 and rc2 == 0)
    finally:
        sh(f"git -C {REPO} worktree remove --force {wt}")
    return res


def detect(d, prop, lanes, tier):
    d = os.path.abspath(d)
    rc, out = sh("git status --short", cwd=REPO)
    if out.strip():
        return dict(error="/repo is not clean: " + out[:200])
    res = dict(prop=prop, lanes=lanes, tier=tier, at=time.strftime("%Y-%m-%dT%H:%M:%S"))
    rc, out = sh(f"git apply {d}/patch.diff", cwd=REPO)
    if rc != 0:
        return dict(error="patch does not apply to /repo: " + out[-300:])
    # evidence/<prop>.json is rewritten by every run: keep the clean-tree evidence, store the mutant run's next to the patch
    ev = f"/verif/evidence/{prop}.json"
    saved = open(ev).read() if os.path.exists(ev) else None
    try:
        cmd = ["python3", "run/check.py", prop, "--tier", tier]
        if lanes:
            cmd += ["--lanes", lanes]
        t0 = time.time()
        rc, out = sh(cmd, cwd="/verif", timeout=4 * 3600)
        res["rc"] = rc
        res["wall_s"] = round(time.time() - t0, 1)
        res["violation_lines"] = len([l for l in out.splitlines() if l.startswith("VIOLATION")])
        res["first_violations"] = [l[:300] for l in out.splitlines() if l.startswith("[violation]")][:4]
        res["summary"] = [l for l in out.splitlines() if l.startswith("[summary]")][-1:] or [out[-300:]]
        res["detected"] = rc == 1 and res["violation_lines"] > 0
    finally:
        if saved is not None:
            open(ev, "w").write(saved)
        sh("git checkout -- .", cwd=REPO)
        rc, out = sh("git status --short", cwd=REPO)
        res["repo_clean_after"] = not out.strip()
    return res


def main():
    a = sys.argv[1:]
    if len(a) < 2:
        print(__doc__)
        return 64
    mode, d = a[0], a[1]
    r = load_results(d)
    if mode == "confirm":
        r["confirm"] = confirm(d)
        save_results(d, r)
        print(json.dumps(r["confirm"], indent=1)[:1500])
        return 0 if r["confirm"].get("confirmed") else 1
    if mode == "detect":
        prop = a[2]
        lanes = None
        tier = "quick"
        i = 3
        while i < len(a):
            if a[i] == "--lanes":
                lanes = a[i + 1]
                i += 1
            elif a[i] == "--tier":
                tier = a[i + 1]
                i += 1
            i += 1
        res = detect(d, prop, lanes, tier)
        r.setdefault("detect", []).append(res)
        save_results(d, r)
        print(json.dumps(res, indent=1)[:2500])
        return 0 if res.get("detected") else 1
    return 64


if __name__ == "__main__":
    sys.exit(main())
