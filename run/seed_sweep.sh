#!/bin/bash
# development helper: every quick check at several VERIF_SEED values (optionally restricted to some lanes);
# prints one line per (seed, property); evidence files are restored from git afterwards
# usage: seed_sweep.sh "<seeds>" [lanes]
cd "$(dirname "$0")/.."
seeds=${1:-"2 3 7 12345 987654321"}; lanes=$2
for sd in $seeds; do
  for p in C01 C02 C03 C04 C05 C06 C07 C08 C09 C10 C11 C12 C13 C14 C15 C16 C17 C18 C19; do
    s=$(date +%s)
    if [ -n "$lanes" ]; then VERIF_SEED=$sd python3 run/check.py $p --tier quick --lanes $lanes > /tmp/seed_${sd}_${p}.log 2>&1; else VERIF_SEED=$sd python3 run/check.py $p --tier quick > /tmp/seed_${sd}_${p}.log 2>&1; fi
    rc=$?
    e=$(date +%s)
    echo "seed=$sd $p rc=$rc wall=$((e-s))s $(grep -E '^\[summary' /tmp/seed_${sd}_${p}.log | cut -c1-170)"
    grep -E 'INCONC|^\[violation|^VIOLATION' /tmp/seed_${sd}_${p}.log | cut -c1-260 | head -4
  done
done
git checkout -- evidence
