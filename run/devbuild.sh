#!/bin/bash
# development helper: build the worker for the rel lane the way check.py does and show compiler diagnostics
cd "$(dirname "$0")/../harness"
RUSTFLAGS="--cfg qwt_verif --check-cfg cfg(qwt_verif) -Awarnings" CARGO_NET_OFFLINE=true cargo build --bin ${1:-worker} --offline --release --target-dir ../.build/rel 2>&1 | grep -E "^error" -A14 | head -${2:-60}
