#!/usr/bin/env python3
"""Offline checker over recorded event logs (guards the Rust oracle itself).

For small tree inputs the worker dumps the whole input sequence (note "input") together with up to
60 accepted operation records {op, args, got}. This script re-derives every expected answer with
an independent, naive Python model (no code shared with the harness or with qwt) and compares it
with what the Rust oracle accepted. A disagreement means the *oracle* is wrong (it accepted an
answer the property forbids), which would silently weaken every monitor.

usage: logcheck.py <rundir> [...]   -> prints a JSON summary; exit 1 on a disagreement
"""
import glob
import json
import os
import re
import sys


def kind_of(ty):
    a = ty.split("<")[0]
    if a.startswith("HQWT"):
        return "huffquad"
    if a.startswith("QWT"):
        return "plainquad"
    if a == "WT":
        return "plainbin"
    if a == "HWT":
        return "huffbin"
    return None


def expected_rank(kind, seq, c, i):
    n = len(seq)
    if i > n:
        return ["None"]
    if n == 0:
        return ["None", "Some(0)"] if kind == "plainquad" else ["None"]
    mx = max(seq)
    cnt = sum(1 for x in seq[:i] if x == c)
    if kind in ("plainquad", "plainbin"):
        return ["Some(%d)" % cnt] if c <= mx else ["None"]
    return ["Some(%d)" % cnt] if c in seq else ["None"]


def expected_select(seq, c, k):
    occ = [p for p, x in enumerate(seq) if x == c]
    return ["Some(%d)" % occ[k]] if k < len(occ) else ["None"]


def expected_get(seq, i):
    return ["Some(%d)" % seq[i]] if i < len(seq) else ["None"]


def recheck_quad(seq, op, nums, val):
    n = len(seq)
    if op == "get" and len(nums) == 1:
        return ["Some(%d)" % seq[nums[0]]] if nums[0] < n else ["None"]
    if op in ("rank", "rank[interleaved]") and len(nums) == 2:
        s, i = nums
        return ["Some(%d)" % sum(1 for x in seq[:i] if x == s)] if s <= 3 and i <= n else ["None"]
    if op in ("select", "select[interleaved]") and len(nums) == 2:
        s, k = nums
        occ = [p for p, x in enumerate(seq) if x == s]
        return ["Some(%d)" % occ[k]] if s <= 3 and k < len(occ) else ["None"]
    if op == "occs" and len(nums) == 1:
        return ["Some(%d)" % seq.count(nums[0])] if nums[0] <= 3 else ["None"]
    if op == "occs_smaller" and len(nums) == 1:
        return ["Some(%d)" % sum(1 for x in seq if x < nums[0])] if nums[0] <= 3 else ["None"]
    if op == "len":
        return [str(n)]
    return None


def recheck_bits(seq, op, nums, val):
    n = len(seq)
    ones = [p for p, x in enumerate(seq) if x == 1]
    zeros = [p for p, x in enumerate(seq) if x == 0]
    if op == "get" and len(nums) == 1:
        return ["Some(%s)" % ("true" if seq[nums[0]] else "false")] if nums[0] < n else ["None"]
    if op in ("rank1", "rank1[interleaved]") and len(nums) == 1:
        i = nums[0]
        if i > n:
            return ["None"]
        return ["None", "Some(0)"] if n == 0 else ["Some(%d)" % sum(seq[:i])]
    if op == "rank0" and len(nums) == 1:
        i = nums[0]
        if i > n:
            return ["None"]
        return ["None", "Some(0)"] if n == 0 else ["Some(%d)" % (i - sum(seq[:i]))]
    if op in ("select1", "select1[interleaved]") and len(nums) == 1:
        return ["Some(%d)" % ones[nums[0]]] if nums[0] < len(ones) else ["None"]
    if op in ("select0", "select0[interleaved]") and len(nums) == 1:
        return ["Some(%d)" % zeros[nums[0]]] if nums[0] < len(zeros) else ["None"]
    if op == "n_ones":
        return [str(len(ones))]
    if op in ("n_zeros", "RankBin::n_zeros"):
        return [str(len(zeros))]
    if op == "bv_len":
        return ["Some(%d)" % n]
    return None


def check_file(path, stats):
    cases, inputs, events = {}, {}, []
    with open(path, errors="replace") as f:
        for line in f:
            if not line.startswith("{"):
                continue
            try:
                j = json.loads(line)
            except Exception:
                continue
            t = j.get("t")
            if t == "case":
                cases[j["idx"]] = j
            elif t == "note" and j.get("key") == "input":
                inputs[j["idx"]] = [int(x) for x in j["v"]]
            elif t == "event":
                events.append(j)
    bad = []
    for e in events:
        idx = e["idx"]
        if idx not in inputs or idx not in cases:
            continue
        ty = cases[idx].get("ty", "")
        kind = kind_of(ty)
        seq = inputs[idx]
        op, args, got = e["op"], e["args"], e["got"]
        m = re.fullmatch(r"Val\((.*)\)", got)
        if not m:
            continue
        val = m.group(1)
        nums = [int(x) for x in re.findall(r"\d+", args)]
        if kind is None:
            exp = None
            if ty.startswith("RSQVector"):
                exp = recheck_quad(seq, op, nums, val)
            elif ty in ("RSNarrow", "RSWide"):
                exp = recheck_bits(seq, op, nums, val)
            if exp is None:
                continue
            stats["rechecked"] += 1
            stats["by_op"][op] = stats["by_op"].get(op, 0) + 1
            if val not in exp:
                bad.append(dict(file=os.path.basename(path), case=ty, input=seq, op=op, args=args,
                                rust_oracle_accepted=val, python_model_expects=exp))
            continue
        if op == "get" and len(nums) == 1:
            exp = expected_get(seq, nums[0])
        elif op == "rank" and len(nums) == 2:
            exp = expected_rank(kind, seq, nums[0], nums[1])
        elif op == "rank_prefetch" and len(nums) == 2:
            exp = ["Some(%s)" % x for x in expected_rank(kind, seq, nums[0], nums[1])]
        elif op == "select" and len(nums) == 2:
            exp = expected_select(seq, nums[0], nums[1])
        elif op == "len" and args == "()":
            exp = [str(len(seq))]
        else:
            continue
        stats["rechecked"] += 1
        stats["by_op"][op] = stats["by_op"].get(op, 0) + 1
        if val not in exp:
            bad.append(dict(file=os.path.basename(path), case=cases[idx].get("ty"), input=seq, op=op, args=args,
                            rust_oracle_accepted=val, python_model_expects=exp))
    stats["cases_with_input"] += len(inputs)
    return bad


def main():
    stats = dict(rechecked=0, cases_with_input=0, by_op={})
    bad = []
    for d in sys.argv[1:]:
        for p in sorted(glob.glob(os.path.join(d, "*.jsonl"))):
            if ".trace." in p:
                continue
            bad.extend(check_file(p, stats))
    stats["disagreements"] = bad[:20]
    stats["n_disagreements"] = len(bad)
    print(json.dumps(stats))
    return 1 if bad else 0


if __name__ == "__main__":
    sys.exit(main())
