#!/bin/bash
# usage: fixcommit.sh <message-file>   — runs the unedited suite guard-off and commits only if it passes
set -e
cd /repo
out=$(cargo test --workspace --no-fail-fast --offline --lib 2>&1 | tail -3)
echo "$out"
echo "$out" | grep -q "test result: ok. 64 passed; 0 failed" || { echo "SUITE NOT GREEN: not committing"; exit 1; }
git commit -q -a -F "$1"
git log --oneline | head -1
